fn main() {
    println!("cargo:rustc-cfg=varlink_rust_verif_clientsync");
    println!("cargo:rerun-if-changed=build.rs");
}
