// Generates Rust bindings for the IDL corpus with /repo's *current* varlink_generator,
// exactly as the repository's own build scripts do.
//
// One textual substitution is applied to the emitted code: the generator hard-codes
// `use std::sync::{Arc, RwLock};` for the client stubs' `Arc<RwLock<varlink::Connection>>`.
// The simulator compiles /repo/varlink with the connection lock taken from shuttle
// (cfg varlink_rust_verif_clientsync), so the stubs must name the same lock type. Nothing else
// of the generated code is touched; the build fails if the import is not found exactly once.
use std::path::PathBuf;

fn gen(idl: &str, out_name: &str) {
    varlink_generator::cargo_build(idl);
    let out = PathBuf::from(std::env::var("OUT_DIR").unwrap()).join(out_name);
    let text = std::fs::read_to_string(&out).expect("generated file");
    let compact = "use std::sync::{Arc, RwLock};";
    let spaced = "use std :: sync :: { Arc , RwLock } ;";
    let n = text.matches(compact).count() + text.matches(spaced).count();
    assert_eq!(n, 1, "expected exactly one `use std::sync::{{Arc, RwLock}}` in {}", out.display());
    let text = text
        .replace(compact, "use shuttle::sync::{Arc, RwLock};")
        .replace(spaced, "use shuttle :: sync :: { Arc , RwLock } ;");
    std::fs::write(&out, text).expect("rewrite generated file");
    println!("cargo:rerun-if-changed={}", idl);
}

fn main() {
    gen("/repo/varlink-certification/src/org.varlink.certification.varlink", "org.varlink.certification.rs");
    gen("/repo/examples/ping/src/org.example.ping.varlink", "org.example.ping.rs");
    gen("/repo/examples/more/src/org.example.more.varlink", "org.example.more.rs");
    println!("cargo:rerun-if-changed=/repo/varlink-certification/src/main.rs");
    println!("cargo:rerun-if-changed=/repo/varlink_generator/src/lib.rs");
    println!("cargo:rerun-if-changed=build.rs");
}
