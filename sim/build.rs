// Generates Rust bindings for the IDL corpus with /repo's *current* varlink_generator,
// exactly as the repository's own build scripts do.
fn main() {
    varlink_generator::cargo_build("/repo/varlink-certification/src/org.varlink.certification.varlink");
    varlink_generator::cargo_build("/repo/examples/ping/src/org.example.ping.varlink");
    varlink_generator::cargo_build("/repo/examples/more/src/org.example.more.varlink");
    println!("cargo:rerun-if-changed=/repo/varlink-certification/src/main.rs");
}
