//! History oracle for one connection: compares what a service put on the wire (and how the
//! connection ended, what scripted interfaces saw, what an upgraded handler consumed) with the
//! alternatives of the reference model, and attributes each discrepancy to the property whose
//! statement it contradicts. An extra reply to a oneway request is C04's, a `continues` reply to a
//! request without `more` is C05's, wrong routing / service-interface content is C03's, a reply
//! for or after a malformed message is C06's, missing / extra / reordered replies are C01's, tail
//! and upgrade hand-over are C02's.

use serde_json::Value;

use crate::model::{split_nul, Alt, Class, Dispatch, End, ExpItem, StreamModel, SvcCfg};

#[derive(Clone, Debug, PartialEq)]
pub struct Violation {
    pub prop: &'static str,
    pub clause: String,
    pub detail: String,
}

pub fn viol(prop: &'static str, clause: &str, detail: String) -> Violation {
    Violation {
        prop,
        clause: clause.to_string(),
        detail,
    }
}

#[derive(Clone, Debug, PartialEq)]
pub enum ObsEnd {
    /// the service processed everything and left the connection open (H: `handle` returned Ok;
    /// L: no EOF before the client half-closed). `tail` is known only in H.
    Open { tail: Option<Vec<u8>>, iface: Option<String> },
    /// the service ended the connection (H: `handle` returned Err; L: EOF/reset before half-close)
    Closed { kind: String },
}

pub struct StreamObs<'a> {
    pub wire: &'a [u8],
    pub end: ObsEnd,
    pub panicked: Option<String>,
    /// bytes processed by the upgraded handler of this connection (None: not observable)
    pub upgraded_record: Option<Vec<u8>>,
    /// calls recorded by scripted interfaces for this connection (None: not attributable)
    pub dispatches: Option<Vec<Dispatch>>,
    /// true in scenario L (socket semantics), false in H (in-memory caller)
    pub socket: bool,
    /// a connection-level fault was injected: only prefix consistency is required
    pub faulted: bool,
    /// which upgrade handler shape ran (1 sink, 2 records)
    pub upgrade_mode: u8,
}

fn short(v: &Value) -> String {
    let s = v.to_string();
    if s.len() > 160 {
        format!("{}…", &s[..160])
    } else {
        s
    }
}

enum Slot<'a> {
    Req(&'a ExpItem),
    /// at most one error reply, content unspecified
    OptErr(usize),
}

fn slots<'a>(alt: &'a Alt, answered_oneway: &[usize]) -> Vec<Slot<'a>> {
    let mut v: Vec<Slot> = Vec::new();
    let mut unspec = alt.unspecified.iter().peekable();
    let mut last_owner = 0usize;
    let flush_unspec = |upto: usize, v: &mut Vec<Slot<'a>>, it: &mut std::iter::Peekable<std::slice::Iter<usize>>| {
        while let Some(&&u) = it.peek() {
            if u < upto {
                v.push(Slot::OptErr(u));
                it.next();
            } else {
                break;
            }
        }
    };
    for it in &alt.items {
        if it.oneway_hypo && !answered_oneway.contains(&it.owner) {
            continue;
        }
        flush_unspec(it.owner, &mut v, &mut unspec);
        v.push(Slot::Req(it));
        last_owner = it.owner;
    }
    let _ = last_owner;
    flush_unspec(usize::MAX, &mut v, &mut unspec);
    v
}

/// returns number of frames matched before the first mismatch, and whether everything matched
fn match_slots(slots: &[Slot], frames: &[Value], si: usize, fi: usize, best: &mut (usize, usize)) -> bool {
    if fi > best.1 || (fi == best.1 && si > best.0) {
        *best = (si, fi);
    }
    if si == slots.len() {
        return fi == frames.len();
    }
    match &slots[si] {
        Slot::Req(it) => {
            if fi < frames.len() && it.reply.matches(&frames[fi]) {
                match_slots(slots, frames, si + 1, fi + 1, best)
            } else {
                false
            }
        }
        Slot::OptErr(_) => {
            if fi < frames.len()
                && frames[fi].get("error").map_or(false, |e| e.is_string())
                && frames[fi].get("continues") != Some(&Value::Bool(true))
                && match_slots(slots, frames, si + 1, fi + 1, best)
            {
                return true;
            }
            match_slots(slots, frames, si + 1, fi, best)
        }
    }
}

fn expected_acks(rest: &[u8], mode: u8) -> (Vec<u8>, Vec<u8>, Vec<u8>) {
    // (acks on the wire, bytes the handler must have processed, partial record left over)
    if mode == 1 {
        return (Vec::new(), rest.to_vec(), Vec::new());
    }
    if mode == 4 {
        // length-prefixed frames, no acknowledgements: complete frames are processed, the rest is left
        let mut processed = Vec::new();
        let mut pos = 0usize;
        while pos < rest.len() {
            let len = rest[pos] as usize;
            if pos + 1 + len > rest.len() {
                break;
            }
            processed.extend_from_slice(&rest[pos..pos + 1 + len]);
            pos += 1 + len;
        }
        return (Vec::new(), processed, rest[pos..].to_vec());
    }
    let mut acks = Vec::new();
    let mut processed = Vec::new();
    let mut start = 0usize;
    for (i, b) in rest.iter().enumerate() {
        if *b == b'\n' {
            acks.extend_from_slice(b"ack:");
            acks.extend_from_slice(&rest[start..=i]);
            processed.extend_from_slice(&rest[start..=i]);
            start = i + 1;
        }
    }
    (acks, processed, rest[start..].to_vec())
}

pub struct Verdict {
    pub violations: Vec<Violation>,
    /// index of the alternative that matched, if any
    pub matched_alt: Option<usize>,
    pub frames: usize,
    pub inconclusive: bool,
}

pub fn check_stream(cfg: &SvcCfg, model: &StreamModel, obs: &StreamObs) -> Verdict {
    let mut out: Vec<Violation> = Vec::new();
    if let Some(p) = &obs.panicked {
        out.push(viol("C06", "panic", format!("service code panicked: {}", p)));
        return Verdict {
            violations: out,
            matched_alt: None,
            frames: 0,
            inconclusive: false,
        };
    }
    if model.overflow {
        return Verdict {
            violations: out,
            matched_alt: None,
            frames: 0,
            inconclusive: true,
        };
    }
    // frame the wire
    let (raw_frames, remainder) = split_nul(obs.wire);
    let mut frames: Vec<Value> = Vec::new();
    for (i, f) in raw_frames.iter().enumerate() {
        match serde_json::from_slice::<Value>(f) {
            Ok(v) if v.is_object() => frames.push(v),
            _ => {
                // after an upgrade the wire is application data; only complain when no alternative upgrades
                if model.alts.iter().any(|a| matches!(a.end, End::Upgraded { .. })) {
                    break;
                }
                out.push(viol(
                    "C01",
                    "reply-not-json",
                    format!("frame {} on the wire is not a JSON object: {:?}", i, String::from_utf8_lossy(f)),
                ));
                return Verdict {
                    violations: out,
                    matched_alt: None,
                    frames: frames.len(),
                    inconclusive: false,
                };
            }
        }
    }
    let nframes = frames.len();

    // 1. try every alternative as is
    for (ai, alt) in model.alts.iter().enumerate() {
        if let Some(v) = try_alt(cfg, model, alt, &frames, raw_frames.len(), remainder, obs, &[]) {
            if v.is_empty() {
                return Verdict {
                    violations: out,
                    matched_alt: Some(ai),
                    frames: nframes,
                    inconclusive: false,
                };
            }
        }
    }

    if obs.faulted {
        // narrow relaxation after a connection-level fault: the observed frames must be a prefix of
        // some alternative's reply stream (cut anywhere), nothing else is required
        for (ai, alt) in model.alts.iter().enumerate() {
            let sl = slots(alt, &[]);
            let mut best = (0, 0);
            match_slots(&sl, &frames, 0, 0, &mut best);
            if best.1 == frames.len() {
                // ... and what an upgraded handler processed is a prefix of what followed the upgrade
                // request: in order, nothing twice, fault or no fault
                if let (End::Upgraded { rest, .. }, Some(recd)) = (&alt.end, &obs.upgraded_record) {
                    if !rest.starts_with(recd) {
                        out.push(viol(
                            "C02",
                            "upgrade-handover",
                            format!(
                                "the upgraded handler processed {} bytes that are not a prefix of the {} bytes after the upgrade request: {:?}",
                                recd.len(),
                                rest.len(),
                                String::from_utf8_lossy(&recd[..recd.len().min(160)])
                            ),
                        ));
                    }
                }
                return Verdict {
                    violations: out,
                    matched_alt: Some(ai),
                    frames: nframes,
                    inconclusive: false,
                };
            }
        }
    }

    // 2. no alternative matches: diagnose against the alternative with the longest matching prefix,
    //    peeling off "oneway request was answered" discrepancies first
    let mut best_alt = 0usize;
    let mut best_score = (0usize, 0usize);
    for (ai, alt) in model.alts.iter().enumerate() {
        let sl = slots(alt, &[]);
        let mut b = (0, 0);
        match_slots(&sl, &frames, 0, 0, &mut b);
        let score = (b.1, b.0);
        if ai == 0 || score > best_score {
            best_score = score;
            best_alt = ai;
        }
    }
    let alt = &model.alts[best_alt];
    let mut answered: Vec<usize> = Vec::new();
    loop {
        let sl = slots(alt, &answered);
        let mut b = (0, 0);
        let ok = match_slots(&sl, &frames, 0, 0, &mut b);
        if ok {
            break;
        }
        // does the first unmatched frame equal the suppressed reply of an unanswered oneway request?
        let fi = b.1;
        let mut progressed = false;
        if fi < frames.len() {
            // candidates: hypothetical items whose owner is not yet marked answered, in order
            for it in alt.items.iter().filter(|i| i.oneway_hypo && !answered.contains(&i.owner)) {
                if it.reply.matches(&frames[fi]) {
                    // only accept if marking this owner answered extends the match
                    let mut a2 = answered.clone();
                    a2.push(it.owner);
                    let sl2 = slots(alt, &a2);
                    let mut b2 = (0, 0);
                    match_slots(&sl2, &frames, 0, 0, &mut b2);
                    if b2.1 > fi {
                        out.push(viol(
                            "C04",
                            "oneway-answered",
                            format!(
                                "message #{} carries oneway:true but the service wrote a reply for it: {}",
                                it.owner,
                                short(&frames[fi])
                            ),
                        ));
                        answered = a2;
                        progressed = true;
                        break;
                    }
                }
            }
        }
        if !progressed {
            break;
        }
    }
    let v = try_alt(cfg, model, alt, &frames, raw_frames.len(), remainder, obs, &answered)
        .unwrap_or_default();
    out.extend(v);
    if out.is_empty() {
        // every alternative failed individually but the diagnosis found nothing: report generically
        out.push(viol(
            "C01",
            "no-alternative-matches",
            "observed stream matches no alternative of the model".into(),
        ));
    }
    Verdict {
        violations: out,
        matched_alt: None,
        frames: nframes,
        inconclusive: false,
    }
}

fn owner_view<'a>(model: &'a StreamModel, owner: usize) -> Option<&'a crate::model::ReqView> {
    match &model.msgs.get(owner)?.class {
        Class::Well(v) => Some(v),
        Class::Gray(Some(v), _) => Some(v),
        _ => None,
    }
}

/// Compare one alternative with the observation. `None` = not applicable; `Some(vec![])` = matches.
#[allow(clippy::too_many_arguments)]
fn try_alt(
    cfg: &SvcCfg,
    model: &StreamModel,
    alt: &Alt,
    frames: &[Value],
    _raw_frames: usize,
    remainder: &[u8],
    obs: &StreamObs,
    answered_oneway: &[usize],
) -> Option<Vec<Violation>> {
    let mut out = Vec::new();
    let sl = slots(alt, answered_oneway);

    // unpredictable suffix: only the predictable prefix is compared
    if let Some(from) = alt.unpredictable_from {
        let pre: Vec<Slot> = sl
            .into_iter()
            .filter(|s| match s {
                Slot::Req(i) => i.owner < from,
                Slot::OptErr(o) => *o < from,
            })
            .collect();
        // frames must start with a match of `pre`
        for cut in 0..=frames.len() {
            let mut b = (0, 0);
            if match_slots(&pre, &frames[..cut], 0, 0, &mut b) {
                return Some(out);
            }
        }
        out.push(viol(
            "C01",
            "prefix-before-gray",
            "replies before an unpredictable gray message do not match the model".into(),
        ));
        return Some(out);
    }

    let mut best = (0usize, 0usize);
    let all = match_slots(&sl, frames, 0, 0, &mut best);
    if !all {
        // One frame too many, sitting exactly where a oneway request was served, and everything else
        // in place: the oneway request was answered (with something the model does not predict, e.g.
        // an empty closing reply) - whatever else the diagnosis below makes of the shifted stream.
        if frames.len() >= 1 {
            let items: Vec<&ExpItem> = sl
                .iter()
                .filter_map(|s| match s {
                    Slot::Req(i) => Some(*i),
                    _ => None,
                })
                .collect();
            for k in 0..frames.len() {
                let mut fewer: Vec<Value> = frames.to_vec();
                let extra = fewer.remove(k);
                let mut b = (0usize, 0usize);
                if !match_slots(&sl, &fewer, 0, 0, &mut b) {
                    continue;
                }
                let before: i64 = if k > 0 { items.get(k - 1).map_or(-1, |i| i.owner as i64) } else { -1 };
                let after: i64 = items.get(k).map_or(model.msgs.len() as i64, |i| i.owner as i64);
                let oneway_between = (0..model.msgs.len() as i64)
                    .filter(|m| *m > before && *m < after)
                    .find(|m| owner_view(model, *m as usize).map_or(false, |v| v.oneway));
                if let Some(m) = oneway_between {
                    out.push(viol(
                        "C04",
                        "oneway-answered",
                        format!(
                            "message #{} carries oneway:true; a reply that belongs to no other request was written where it was served: {}",
                            m,
                            short(&extra)
                        ),
                    ));
                }
                break;
            }
        }
        // "no such interface" said of an interface that is registered, on a stream that does not
        // match the model: whatever else went wrong, the service interface is not telling the truth
        for f in frames.iter() {
            if f.get("error").and_then(|e| e.as_str()) == Some("org.varlink.service.InterfaceNotFound") {
                if let Some(name) = f.get("parameters").and_then(|p| p.get("interface")).and_then(|i| i.as_str()) {
                    let registered = name == crate::model::SVC
                        || cfg.scripted.iter().any(|n| n == name)
                        || (cfg.ping && name == crate::model::PING)
                        || (cfg.more && name == crate::model::MORE);
                    let predicted = sl.iter().any(|s| matches!(s, Slot::Req(i) if i.reply.matches(f)));
                    if registered && !predicted {
                        out.push(viol(
                            "C03",
                            "interface-not-found-for-registered-interface",
                            format!("the service wrote {} although an interface of that name is registered", short(f)),
                        ));
                        break;
                    }
                }
            }
        }
        let (si, fi) = best;
        // first mismatch: slot si vs frame fi
        let slot_item: Option<&ExpItem> = sl[si..].iter().find_map(|s| match s {
            Slot::Req(i) => Some(*i),
            _ => None,
        });
        if fi >= frames.len() {
            // frames exhausted, replies missing
            let it = slot_item.expect("unmatched slot");
            match &obs.end {
                ObsEnd::Open { iface, .. } => {
                    out.push(viol(
                        "C01",
                        "unanswered-while-open",
                        format!(
                            "message #{} ({}) got no (complete) reply group although the connection stayed open; expected {:?}",
                            it.owner,
                            owner_view(model, it.owner).map(|v| v.method.clone()).unwrap_or_default(),
                            it.reply
                        ),
                    ));
                    // a call that the library itself answers (service interface, unknown interface /
                    // method) and that is met with silence: the service interface does not tell the truth
                    {
                        let kind = expect_kind(cfg, owner_view(model, it.owner));
                        if kind == "service" || kind == "routing" {
                            out.push(viol(
                                "C03",
                                "service-call-unanswered",
                                format!(
                                    "message #{} ({}) is answered by the library itself, yet nothing was written for it and the connection stayed open; expected {:?}",
                                    it.owner,
                                    owner_view(model, it.owner).map(|v| v.method.clone()).unwrap_or_default(),
                                    it.reply
                                ),
                            ));
                        }
                    }
                    // where did the request go instead? If the connection counts as upgraded although
                    // no call of this alternative upgrades it, the request was handed to an upgraded
                    // handler (or to nobody) instead of the interface its method names
                    let handed_over = obs.upgraded_record.as_ref().map_or(false, |r| !r.is_empty());
                    if !matches!(alt.end, End::Upgraded { .. }) && (iface.is_some() || handed_over) {
                        out.push(viol(
                            "C03",
                            "routed-to-upgraded-handler",
                            format!(
                                "message #{} ({}) was not routed by its interface name: the connection is treated as upgraded ({:?}) although no call upgraded it",
                                it.owner,
                                owner_view(model, it.owner).map(|v| v.method.clone()).unwrap_or_default(),
                                iface
                            ),
                        ));
                    }
                }
                ObsEnd::Closed { kind } => {
                    if obs.faulted {
                        // legitimately cut short
                    } else if obs.socket {
                        out.push(viol(
                            "C13",
                            "closed-early",
                            format!(
                                "connection ended ({}) before message #{} was answered although nothing in its own traffic calls for it",
                                kind, it.owner
                            ),
                        ));
                    } else if model.has_malformed || model.has_gray {
                        out.push(viol(
                            "C06",
                            "wellformed-before-malformed-unanswered",
                            format!(
                                "handle returned Err({}) before well-formed message #{} was answered",
                                kind, it.owner
                            ),
                        ));
                        let ek = expect_kind(cfg, owner_view(model, it.owner));
                        if ek == "service" || ek == "routing" {
                            out.push(viol(
                                "C03",
                                "service-call-unanswered",
                                format!(
                                    "message #{} ({}) is answered by the library itself, yet the connection was ended ({}) without its reply; expected {:?}",
                                    it.owner,
                                    owner_view(model, it.owner).map(|v| v.method.clone()).unwrap_or_default(),
                                    kind,
                                    it.reply
                                ),
                            ));
                        }
                    } else {
                        out.push(viol(
                            "C01",
                            "closed-without-cause",
                            format!(
                                "handle returned Err({}) on a stream of well-formed requests; message #{} unanswered",
                                kind, it.owner
                            ),
                        ));
                    }
                }
            }
        } else if slot_item.is_none() {
            // extra frame beyond everything expected
            let f = &frames[fi];
            match &alt.end {
                End::Closed { malformed: true, at } => out.push(viol(
                    "C06",
                    "reply-for-or-after-malformed",
                    format!("message #{} is malformed, yet the service wrote a further reply: {}", at, short(f)),
                )),
                other => {
                    if let End::Open { tail } = other {
                        if !tail.is_empty() {
                            out.push(viol(
                                "C06",
                                "reply-for-truncated-message",
                                format!(
                                    "the stream ends in an incomplete message ({} bytes without a terminating NUL), yet the service wrote a further reply: {}",
                                    tail.len(),
                                    short(f)
                                ),
                            ));
                        }
                    }
                    out.push(viol(
                        "C01",
                        "extra-reply",
                        format!("reply #{} has no request to belong to: {}", fi, short(f)),
                    ))
                }
            }
        } else {
            let it = slot_item.unwrap();
            let f = &frames[fi];
            let view = owner_view(model, it.owner);
            let cont = f.get("continues") == Some(&Value::Bool(true));
            if cont && view.map_or(false, |v| !v.more) {
                out.push(viol(
                    "C05",
                    "continues-without-more",
                    format!(
                        "reply #{} carries continues:true but its request (message #{}) has no more:true: {}",
                        fi, it.owner, short(f)
                    ),
                ));
            } else {
                // skipped / duplicated / content
                let later = sl[si + 1..].iter().any(|s| matches!(s, Slot::Req(i) if i.reply.matches(f)));
                let earlier = sl[..si].iter().any(|s| matches!(s, Slot::Req(i) if i.reply.matches(f)));
                let kind = expect_kind(cfg, view);
                if later && !matches!(it.reply, crate::model::ExpReply::Info { .. }) {
                    out.push(viol(
                        "C01",
                        "reply-skipped-or-reordered",
                        format!(
                            "reply #{} answers a later request; message #{} was skipped or answered out of order: got {}",
                            fi, it.owner, short(f)
                        ),
                    ));
                } else if earlier && sl[..si].iter().rev().take(1).any(|s| matches!(s, Slot::Req(i) if i.reply.matches(f) && !i.reply.is_continues())) {
                    out.push(viol(
                        "C01",
                        "reply-duplicated",
                        format!("reply #{} repeats the previous final reply: {}", fi, short(f)),
                    ));
                } else if it.reply.is_continues() != cont {
                    out.push(viol(
                        if cont { "C05" } else { "C01" },
                        "group-structure",
                        format!(
                            "reply #{} for message #{}: expected continues={} got continues={}: {}",
                            fi, it.owner, it.reply.is_continues(), cont, short(f)
                        ),
                    ));
                } else if kind == "service" || kind == "routing" {
                    out.push(viol(
                        "C03",
                        "routing-or-service-content",
                        format!(
                            "message #{} ({}): expected {:?}, got {}",
                            it.owner,
                            view.map(|v| v.method.clone()).unwrap_or_default(),
                            it.reply,
                            short(f)
                        ),
                    ));
                } else {
                    // scripted/generated: a token mismatch is a misdelivered reply (ordering), anything
                    // else means the call did not reach the implementation unchanged
                    let tok_exp = view.map(|v| crate::model::token_of(&v.params));
                    let tok_got = f
                        .get("parameters")
                        .and_then(|p| p.get("token").or_else(|| p.get("pong")))
                        .cloned();
                    let misdelivered = match (&tok_exp, &tok_got) {
                        (Some(a), Some(b)) if !a.is_null() => a != b,
                        _ => false,
                    };
                    out.push(viol(
                        if misdelivered { "C01" } else { "C03" },
                        if misdelivered { "reply-for-other-request" } else { "call-not-unchanged" },
                        format!(
                            "message #{} ({}): expected {:?}, got {}",
                            it.owner,
                            view.map(|v| v.method.clone()).unwrap_or_default(),
                            it.reply,
                            short(f)
                        ),
                    ));
                }
            }
        }
        return Some(out);
    }

    // replies match; now the end of the stream
    match (&alt.end, &obs.end) {
        (End::Open { tail }, ObsEnd::Open { tail: ot, iface }) => {
            if iface.is_some() {
                out.push(viol(
                    "C02",
                    "spurious-upgrade",
                    format!("handle reports upgraded interface {:?} but no request upgraded", iface),
                ));
            }
            if let Some(ot) = ot {
                if ot != tail {
                    // a complete message left in the tail = silently skipped request
                    let has_complete = ot.contains(&0u8);
                    out.push(viol(
                        if has_complete { "C01" } else { "C02" },
                        if has_complete { "complete-message-left-in-tail" } else { "tail" },
                        format!(
                            "returned tail {:?} differs from the bytes after the last complete message {:?}",
                            String::from_utf8_lossy(&ot[..ot.len().min(120)]),
                            String::from_utf8_lossy(&tail[..tail.len().min(120)])
                        ),
                    ));
                }
            }
            if !remainder.is_empty() {
                out.push(viol(
                    "C01",
                    "partial-reply",
                    format!("wire ends with an unterminated frame: {:?}", String::from_utf8_lossy(remainder)),
                ));
            }
        }
        (End::Open { .. }, ObsEnd::Closed { kind }) => {
            if !obs.faulted {
                out.push(viol(
                    if obs.socket { "C13" } else { "C01" },
                    "closed-without-cause",
                    format!("all requests well-formed and answered, yet the connection was ended: {}", kind),
                ));
            }
        }
        (End::Closed { at, malformed }, ObsEnd::Open { .. }) => {
            if *malformed {
                out.push(viol(
                    "C06",
                    "not-closed-after-malformed",
                    format!("message #{} is malformed but the connection was left open (no error returned)", at),
                ));
            } else {
                // MayClose alternative that closes: the observation did not close → this alt does not apply
                return None;
            }
        }
        (End::Closed { .. }, ObsEnd::Closed { .. }) => {
            if !remainder.is_empty() && !obs.faulted {
                out.push(viol(
                    "C01",
                    "partial-reply",
                    format!("wire ends with an unterminated frame: {:?}", String::from_utf8_lossy(remainder)),
                ));
            }
        }
        (End::Upgraded { at, iface, rest }, oe) => {
            let (acks, processed, partial) = expected_acks(rest, obs.upgrade_mode);
            match oe {
                ObsEnd::Closed { kind } => {
                    if !obs.faulted {
                        out.push(viol(
                            "C02",
                            "upgrade-aborted",
                            format!("connection ended ({}) after message #{} upgraded it", kind, at),
                        ));
                    }
                    // however it ended: what the handler processed is a prefix of what followed the
                    // upgrade request - in order, nothing twice
                    if let Some(recd) = &obs.upgraded_record {
                        if !rest.starts_with(recd) {
                            out.push(viol(
                                "C02",
                                "upgrade-handover",
                                format!(
                                    "connection ended ({}); the upgraded handler had processed {} bytes that are not a prefix of the {} bytes after the upgrade request: {:?}",
                                    kind,
                                    recd.len(),
                                    rest.len(),
                                    String::from_utf8_lossy(&recd[..recd.len().min(120)])
                                ),
                            ));
                        }
                    }
                }
                ObsEnd::Open { tail, iface: oi } => {
                    if !obs.socket && oi.as_deref() != Some(iface.as_str()) {
                        out.push(viol(
                            "C02",
                            "upgrade-iface",
                            format!("expected upgraded interface {:?}, handle reported {:?}", iface, oi),
                        ));
                    }
                    if let Some(recd) = &obs.upgraded_record {
                        if recd != &processed {
                            out.push(viol(
                                "C02",
                                "upgrade-handover",
                                format!(
                                    "upgraded handler processed {} bytes {:?}; the {} bytes after the upgrade request are {:?}",
                                    recd.len(),
                                    String::from_utf8_lossy(&recd[..recd.len().min(80)]),
                                    processed.len(),
                                    String::from_utf8_lossy(&processed[..processed.len().min(80)])
                                ),
                            ));
                        }
                    }
                    if let Some(t) = tail {
                        if t != &partial {
                            out.push(viol(
                                "C02",
                                "upgrade-tail",
                                format!(
                                    "unprocessed upgraded bytes held by the caller {:?}, expected {:?}",
                                    String::from_utf8_lossy(&t[..t.len().min(80)]),
                                    String::from_utf8_lossy(&partial[..partial.len().min(80)])
                                ),
                            ));
                        }
                    }
                    if remainder != acks.as_slice() && out.is_empty() {
                        out.push(viol(
                            "C02",
                            "upgrade-acks",
                            format!(
                                "bytes written by the upgraded handler {:?} differ from expected {:?}",
                                String::from_utf8_lossy(&remainder[..remainder.len().min(80)]),
                                String::from_utf8_lossy(&acks[..acks.len().min(80)])
                            ),
                        ));
                    }
                }
            }
        }
    }

    // calls that reached scripted interfaces
    if let Some(d) = &obs.dispatches {
        if d != &alt.dispatches && !obs.faulted {
            // tolerate a missing suffix only when the connection was closed early by a MayClose branch
            let n = d.len().min(alt.dispatches.len());
            let first = (0..n).find(|&i| d[i] != alt.dispatches[i]);
            out.push(viol(
                "C03",
                "dispatch",
                match first {
                    Some(i) => format!(
                        "call #{} reached a scripted interface as {:?}, the request says {:?}",
                        i, d[i], alt.dispatches[i]
                    ),
                    None => format!(
                        "{} calls reached scripted interfaces, the requests imply {}",
                        d.len(),
                        alt.dispatches.len()
                    ),
                },
            ));
        }
    }
    Some(out)
}

fn expect_kind(cfg: &SvcCfg, v: Option<&crate::model::ReqView>) -> &'static str {
    match v {
        Some(v) => crate::model::expect(cfg, v).kind,
        None => "unknown",
    }
}
