//! Scenario K1: the real client (`Connection`, `MethodCall::{call, more, next, recv, oneway}`, error
//! mapping) in 1..8 client tasks sharing one `Arc<RwLock<Connection>>`, against a scripted fake
//! server played by the environment task on a simulated socket pair. The client crate instance is
//! the shadow build of /repo/varlink (the connection lock is shuttle's under cfg varlink_rust_verif_clientsync) so that every lock acquisition and
//! every socket operation of every client thread is a scheduling point.
//!
//! The fake server withholds each reply until the environment's turn comes (by default: until
//! nothing else can run), which is what creates in-flight state for the other threads to collide
//! with. What it replies travels inside the request (`parameters.spec`).

use std::collections::VecDeque;
use std::io::BufReader;
use std::sync::atomic::{AtomicBool, Ordering};
use std::sync::{Arc, Mutex as StdMutex};

use serde_derive::{Deserialize, Serialize};
use serde_json::{json, Value};
use varlink::{Connection, ErrorKind, MethodCall};

use crate::cases::Case;
use crate::net::{client_pair, new_net, ConnOpts, NetRef};
use crate::oracle::{viol, Violation};
use crate::props::{Plan, Space};
use crate::report::{RunResult, Tier};
use crate::rng::{Fnv, Rng};
use crate::sched::{run_sim, wait_quiescent, SchedCfg, SimEnd};

#[derive(Clone, Debug, Serialize, Deserialize, PartialEq)]
pub enum RSpec {
    Ok,
    OkNoParams,
    /// a final reply without `error` whose parameters do not fit a typed reply struct: {"token": 5}
    OkIllTyped,
    /// a result with a 9000-byte member: larger than the client's read buffer
    OkBig,
    /// name: 0 InterfaceNotFound, 1 MethodNotFound, 2 MethodNotImplemented, 3 InvalidParameter,
    /// 4 custom error; params: 0 proper, 1 member absent, 2 ill-typed, 3 other members only
    Err { name: u8, params: u8 },
}

#[derive(Clone, Debug, Serialize, Deserialize, PartialEq)]
pub enum KOp {
    Call(RSpec),
    /// oneway(), then call() on the *same* call object (must be refused: the object was sent)
    OnewayResend,
    /// call() whose reply type is a struct with a required string member `token` (not a bare Value)
    CallTyped(RSpec),
    Oneway,
    /// call(), then a second call() on the same call object
    Resend(RSpec),
    /// more(), then `nexts` calls of next(); `nested`: after the first item, try a new call
    More { conts: u8, fin: RSpec, nexts: u8, nested: bool },
    /// like More, but the `err_at`-th intermediate reply carries an `error` member *and*
    /// `continues: true`: an error item in the middle of a stream that goes on
    MoreErr { conts: u8, err_at: u8, fin: RSpec, nexts: u8 },
    /// more(), one next(), then a second send on the *same* call object while it is still iterating
    /// (refused), then a new call (busy), then the iteration is continued to its end
    MoreResend { conts: u8, fin: RSpec },
    /// more(); after the first item a new call object is tried (refused: busy); the iteration is
    /// continued to its end; then the *refused* call object is issued again, this time with oneway()
    BusyRetryOneway { conts: u8, fin: RSpec },
    /// more() with a typed reply struct: `conts` items that decode, then the final reply `fin` (which
    /// may not decode), then the end
    MoreTyped { conts: u8, fin: RSpec },
    /// upgrade(): like call(), the request carries the upgrade flag; judged like a call
    Upgrade(RSpec),
    /// a call whose parameters cannot be serialised (mode 0 call(), 1 more(), 2 oneway()): it fails
    /// before anything is sent, so no call is outstanding afterwards
    Unser { mode: u8 },
}

/// parameters whose Serialize implementation always fails
pub struct BadSer;
impl serde::Serialize for BadSer {
    fn serialize<S: serde::Serializer>(&self, _s: S) -> Result<S::Ok, S::Error> {
        Err(serde::ser::Error::custom("these parameters cannot be serialised"))
    }
}

#[derive(Clone, Debug, Serialize, Deserialize, PartialEq)]
pub struct KCase {
    pub tasks: Vec<Vec<KOp>>,
    pub cli_read_plan: Vec<u16>,
    pub cli_write_plan: Vec<u16>,
    /// sizes in which the fake server releases reply bytes, one per turn; exhausted = everything pending
    pub srv_chunks: Vec<u16>,
    /// percent of server turns taken without waiting for quiescence
    pub eager: u8,
    /// fault: the server closes the connection after this many reply bytes
    pub eof_after: Option<usize>,
    /// every `continues` reply carries a `pad` member of this many bytes (huge streams)
    #[serde(default)]
    pub cont_pad: usize,
    pub sched: SchedCfg,
}

const STD_ERR: [(&str, &str); 4] = [
    ("org.varlink.service.InterfaceNotFound", "interface"),
    ("org.varlink.service.MethodNotFound", "method"),
    ("org.varlink.service.MethodNotImplemented", "method"),
    ("org.varlink.service.InvalidParameter", "parameter"),
];
const CUSTOM_ERR: &str = "org.sim.k.Boom";
/// names that only look like the standard ones: unqualified, with the prefix doubled, under another
/// interface. All of them are "any other error": the caller gets the full reply.
const LOOKALIKE_ERR: [&str; 4] = [
    "InvalidParameter",
    "org.varlink.service.org.varlink.service.MethodNotFound",
    "org.example.x.InterfaceNotFound",
    "MethodNotImplemented",
];

fn custom_name(name: u8) -> &'static str {
    if name >= 5 {
        LOOKALIKE_ERR[(name as usize - 5) % LOOKALIKE_ERR.len()]
    } else {
        CUSTOM_ERR
    }
}

fn spec_json(s: &RSpec) -> Value {
    serde_json::to_value(s).unwrap()
}

fn err_params(name: u8, params: u8, token: &str) -> Option<Value> {
    let field = if (name as usize) < 4 { STD_ERR[name as usize].1 } else { "detail" };
    match params {
        0 => Some(json!({ field: format!("val-{}", token) })),
        1 => None,
        2 => Some(json!({ field: 5 })),
        _ => Some(json!({"other": token})),
    }
}

/// the frame the fake server sends for a final reply
fn final_frame(spec: &RSpec, token: &str) -> Value {
    match spec {
        RSpec::Ok => json!({"parameters": {"token": token}}),
        RSpec::OkNoParams => json!({}),
        RSpec::OkIllTyped => json!({"parameters": {"token": 5}}),
        RSpec::OkBig => json!({"parameters": {"token": token, "pad": "B".repeat(9000)}}),
        RSpec::Err { name, params } => {
            let n = if (*name as usize) < 4 { STD_ERR[*name as usize].0 } else { custom_name(*name) };
            let mut m = serde_json::Map::new();
            m.insert("error".into(), json!(n));
            if let Some(p) = err_params(*name, *params, token) {
                m.insert("parameters".into(), p);
            }
            Value::Object(m)
        }
    }
}

/// what the client must hand back for that frame (independent of /repo's mapping code)
fn expected_outcome(spec: &RSpec, token: &str) -> String {
    match spec {
        RSpec::Ok => format!("Ok:{}", json!({ "token": token })),
        RSpec::OkNoParams => "Ok:{}".to_string(),
        RSpec::OkIllTyped => format!("Ok:{}", json!({"token": 5})),
        RSpec::OkBig => format!("Ok:{}", json!({"token": token, "pad": "B".repeat(9000)})),
        RSpec::Err { name, params } => {
            if (*name as usize) < 4 {
                let kind = ["InterfaceNotFound", "MethodNotFound", "MethodNotImplemented", "InvalidParameter"][*name as usize];
                let p = if *params == 0 { format!("val-{}", token) } else { String::new() };
                format!("E:{}:{}", kind, p)
            } else {
                format!(
                    "E:Reply:{}:{}",
                    custom_name(*name),
                    err_params(*name, *params, token).map(|v| v.to_string()).unwrap_or_else(|| "-".into())
                )
            }
        }
    }
}

fn outcome_of(r: &Result<Value, varlink::Error>) -> String {
    match r {
        Ok(v) => format!("Ok:{}", short_pad(v)),
        Err(e) => err_outcome(e),
    }
}

/// a long `pad` member (huge replies) is recorded by its length and first byte only
fn short_pad(v: &Value) -> Value {
    match v.get("pad").and_then(|p| p.as_str()) {
        Some(p) if p.len() > 100_000 => {
            let mut w = v.clone();
            w["pad"] = json!(pad_mark(p.len()));
            w
        }
        _ => v.clone(),
    }
}

fn pad_mark(n: usize) -> String {
    format!("<{} bytes of x>", n)
}

fn err_outcome(e: &varlink::Error) -> String {
    match e.kind() {
        ErrorKind::InterfaceNotFound(s) => format!("E:InterfaceNotFound:{}", s),
        ErrorKind::MethodNotFound(s) => format!("E:MethodNotFound:{}", s),
        ErrorKind::MethodNotImplemented(s) => format!("E:MethodNotImplemented:{}", s),
        ErrorKind::InvalidParameter(s) => format!("E:InvalidParameter:{}", s),
        ErrorKind::VarlinkErrorReply(r) => format!(
            "E:Reply:{}:{}",
            r.error.as_deref().unwrap_or("-"),
            r.parameters.as_ref().map(|v| v.to_string()).unwrap_or_else(|| "-".into())
        ),
        ErrorKind::ConnectionBusy => "E:Busy".into(),
        ErrorKind::MethodCalledAlready => "E:CalledAlready".into(),
        ErrorKind::ConnectionClosed => "E:Closed".into(),
        ErrorKind::IteratorOldReply => "E:IteratorOldReply".into(),
        ErrorKind::Io(k) => format!("E:Io:{:?}", k),
        ErrorKind::SerdeJsonDe(_) => "E:SerdeDe".into(),
        ErrorKind::SerdeJsonSer(_) => "E:SerdeSer".into(),
        other => format!("E:Other:{:?}", other),
    }
}

/// a generated-style reply struct: decoding fails when `token` is missing or not a string
#[derive(serde_derive::Deserialize, Debug)]
pub struct TypedReply {
    pub token: String,
}

/// what a typed call must hand back
fn expected_typed(spec: &RSpec, token: &str) -> String {
    match spec {
        RSpec::Ok | RSpec::OkBig => format!("Ok:typed:{}", token),
        // the reply is final and carries no error, but does not decode: an error for this call,
        // and the connection is free again
        RSpec::OkNoParams | RSpec::OkIllTyped => "E:Serde".to_string(),
        other => expected_outcome(other, token),
    }
}

#[derive(Clone, Debug)]
pub struct OpRec {
    pub task: usize,
    pub op: usize,
    /// "call" "oneway" "resend" "more" "item" "end" "nested"
    pub what: &'static str,
    pub item: usize,
    pub token: String,
    pub inv: u64,
    pub ret: u64,
    pub outcome: String,
}

#[derive(Clone, Debug)]
pub struct Arrival {
    pub token: String,
    pub more: bool,
    pub oneway: bool,
    pub seq: u64,
}

#[derive(Default)]
pub struct KObs {
    pub ops: Vec<OpRec>,
    pub arrivals: Vec<Arrival>,
    pub server_violations: Vec<Violation>,
    pub log_hash: u64,
    pub hang: bool,
    pub finished: bool,
    pub reply_bytes: usize,
    pub cli_short_reads: u64,
    pub cli_read_eintr: u64,
    pub cli_read_timeouts: u64,
    pub busy_seen: u64,
    pub eof_fired: bool,
    pub max_in_buffer_frames: usize,
    /// (token, index of the reply within that request's reply group, offset in the reply stream at
    /// which the reply's terminating NUL has been delivered)
    pub frame_ends: Vec<(String, usize, usize)>,
    /// event sequence numbers of client-side reads that returned data
    pub cli_reads: Vec<u64>,
}

type Results = Arc<StdMutex<Vec<OpRec>>>;

fn run_task(net: NetRef, conn: Arc<shuttle::sync::RwLock<Connection>>, task: usize, ops: Vec<KOp>, results: Results) {
    let rec = |r: OpRec| results.lock().unwrap_or_else(|e| e.into_inner()).push(r);
    for (oi, op) in ops.iter().enumerate() {
        let token = format!("t{}-{}", task, oi);
        let new_call = |tok: &str, spec: Value| {
            MethodCall::<Value, Value, varlink::Error>::new(conn.clone(), "org.sim.k.Do", json!({"token": tok, "spec": spec}))
        };
        match op {
            KOp::Call(spec) | KOp::Resend(spec) | KOp::Upgrade(spec) => {
                let mut mc = new_call(&token, json!({"final": spec_json(spec)}));
                let inv = net.stamp(format!("inv {} call", token));
                let r = if matches!(op, KOp::Upgrade(_)) { mc.upgrade() } else { mc.call() };
                let ret = net.stamp(format!("ret {} call", token));
                rec(OpRec { task, op: oi, what: "call", item: 0, token: token.clone(), inv, ret, outcome: outcome_of(&r) });
                if matches!(op, KOp::Resend(_)) {
                    let inv = net.stamp(format!("inv {} resend", token));
                    let r = mc.call();
                    let ret = net.stamp(format!("ret {} resend", token));
                    rec(OpRec { task, op: oi, what: "resend", item: 0, token: token.clone(), inv, ret, outcome: outcome_of(&r) });
                }
            }
            KOp::CallTyped(spec) => {
                let mut mc = MethodCall::<Value, TypedReply, varlink::Error>::new(
                    conn.clone(),
                    "org.sim.k.Do",
                    json!({"token": token, "spec": {"final": spec_json(spec)}}),
                );
                let inv = net.stamp(format!("inv {} call", token));
                let r = mc.call();
                let ret = net.stamp(format!("ret {} call", token));
                let outcome = match &r {
                    Ok(t) => format!("Ok:typed:{}", t.token),
                    Err(e) => err_outcome(e),
                };
                rec(OpRec { task, op: oi, what: "call", item: 0, token: token.clone(), inv, ret, outcome });
            }
            KOp::MoreTyped { conts, fin } => {
                let mut mc = MethodCall::<Value, TypedReply, varlink::Error>::new(
                    conn.clone(),
                    "org.sim.k.Do",
                    json!({"token": token, "spec": {"conts": conts, "final": spec_json(fin), "err_at": Value::Null}}),
                );
                let inv = net.stamp(format!("inv {} more", token));
                let started = mc.more().map(|_| ());
                let ret = net.stamp(format!("ret {} more", token));
                let ok = started.is_ok();
                rec(OpRec {
                    task,
                    op: oi,
                    what: "more",
                    item: 0,
                    token: token.clone(),
                    inv,
                    ret,
                    outcome: match &started {
                        Ok(()) => "Ok".into(),
                        Err(e) => err_outcome(e),
                    },
                });
                if !ok {
                    continue;
                }
                for j in 0..(*conts as usize + 2) {
                    let inv = net.stamp(format!("inv {} next{}", token, j));
                    let it = mc.next();
                    let ret = net.stamp(format!("ret {} next{}", token, j));
                    match it {
                        Some(r) => {
                            let outcome = match &r {
                                Ok(t) => format!("Ok:typed:{}", t.token),
                                Err(e) => err_outcome(e),
                            };
                            rec(OpRec { task, op: oi, what: "item", item: j, token: token.clone(), inv, ret, outcome });
                        }
                        None => rec(OpRec { task, op: oi, what: "end", item: j, token: token.clone(), inv, ret, outcome: "None".into() }),
                    }
                }
            }
            KOp::Unser { mode } => {
                let mut mc = MethodCall::<BadSer, Value, varlink::Error>::new(conn.clone(), "org.sim.k.Do", BadSer);
                let inv = net.stamp(format!("inv {} unser", token));
                let r = match mode {
                    0 => mc.call().map(|_| ()),
                    1 => mc.more().map(|_| ()),
                    _ => mc.oneway(),
                };
                let ret = net.stamp(format!("ret {} unser", token));
                let outcome = match &r {
                    Ok(()) => "Ok".to_string(),
                    Err(e) => err_outcome(e),
                };
                rec(OpRec { task, op: oi, what: "unser", item: 0, token: token.clone(), inv, ret, outcome });
            }
            KOp::Oneway | KOp::OnewayResend => {
                let mut mc = new_call(&token, json!({"final": spec_json(&RSpec::Ok)}));
                let inv = net.stamp(format!("inv {} oneway", token));
                let r = mc.oneway();
                let ret = net.stamp(format!("ret {} oneway", token));
                let outcome = match &r {
                    Ok(()) => "Ok".to_string(),
                    Err(e) => err_outcome(e),
                };
                rec(OpRec { task, op: oi, what: "oneway", item: 0, token: token.clone(), inv, ret, outcome });
                if matches!(op, KOp::OnewayResend) {
                    let inv = net.stamp(format!("inv {} resend", token));
                    let r = if oi % 2 == 0 { mc.call().map(|_| ()) } else { mc.oneway() };
                    let ret = net.stamp(format!("ret {} resend", token));
                    let outcome = match &r {
                        Ok(()) => "Ok".to_string(),
                        Err(e) => err_outcome(e),
                    };
                    rec(OpRec { task, op: oi, what: "resend", item: 0, token: token.clone(), inv, ret, outcome });
                }
            }
            KOp::More { .. } | KOp::MoreErr { .. } | KOp::MoreResend { .. } | KOp::BusyRetryOneway { .. } => {
                let resend_nexts: u8;
                let (conts, fin, nexts, nested, err_at) = match op {
                    KOp::More { conts, fin, nexts, nested } => (conts, fin, nexts, nested, None),
                    KOp::MoreErr { conts, err_at, fin, nexts } => (conts, fin, nexts, &false, Some(*err_at)),
                    KOp::MoreResend { conts, fin } | KOp::BusyRetryOneway { conts, fin } => {
                        resend_nexts = *conts + 2;
                        (conts, fin, &resend_nexts, &true, None)
                    }
                    _ => unreachable!(),
                };
                let resend_mid = matches!(op, KOp::MoreResend { .. });
                let retry_after = matches!(op, KOp::BusyRetryOneway { .. });
                let mut kept = None;
                let mut mc = new_call(&token, json!({"conts": conts, "final": spec_json(fin), "err_at": err_at}));
                let inv = net.stamp(format!("inv {} more", token));
                let started = mc.more().map(|_| ());
                let ret = net.stamp(format!("ret {} more", token));
                let ok = started.is_ok();
                rec(OpRec {
                    task,
                    op: oi,
                    what: "more",
                    item: 0,
                    token: token.clone(),
                    inv,
                    ret,
                    outcome: match &started {
                        Ok(()) => "Ok".into(),
                        Err(e) => err_outcome(e),
                    },
                });
                if !ok {
                    continue;
                }
                for j in 0..*nexts as usize {
                    if resend_mid && j == 1 {
                        let inv = net.stamp(format!("inv {} resend", token));
                        let r = mc.call();
                        let ret = net.stamp(format!("ret {} resend", token));
                        rec(OpRec { task, op: oi, what: "resend", item: j, token: token.clone(), inv, ret, outcome: outcome_of(&r) });
                    }
                    if *nested && j == 1 {
                        let ntok = format!("{}-n", token);
                        let mut inner = new_call(&ntok, json!({"final": spec_json(&RSpec::Ok)}));
                        let inv = net.stamp(format!("inv {} nested", ntok));
                        let r = inner.call();
                        let ret = net.stamp(format!("ret {} nested", ntok));
                        rec(OpRec { task, op: oi, what: "nested", item: j, token: ntok.clone(), inv, ret, outcome: outcome_of(&r) });
                        if retry_after {
                            kept = Some((ntok, inner));
                        }
                    }
                    let inv = net.stamp(format!("inv {} next{}", token, j));
                    let it = mc.next();
                    let ret = net.stamp(format!("ret {} next{}", token, j));
                    match it {
                        Some(r) => rec(OpRec { task, op: oi, what: "item", item: j, token: token.clone(), inv, ret, outcome: outcome_of(&r) }),
                        None => {
                            rec(OpRec { task, op: oi, what: "end", item: j, token: token.clone(), inv, ret, outcome: "None".into() });
                        }
                    }
                }
                if let Some((ntok, mut inner)) = kept {
                    let inv = net.stamp(format!("inv {} retry", ntok));
                    let r = inner.oneway();
                    let ret = net.stamp(format!("ret {} retry", ntok));
                    let outcome = match &r {
                        Ok(()) => "Ok".to_string(),
                        Err(e) => err_outcome(e),
                    };
                    rec(OpRec { task, op: oi, what: "retry", item: 0, token: ntok, inv, ret, outcome });
                }
            }
        }
    }
}

pub fn run_k(case: &KCase) -> (SimEnd, crate::sched::SimStats, KObs) {
    let out: Arc<StdMutex<KObs>> = Arc::new(StdMutex::new(KObs::default()));
    let out2 = out.clone();
    let c = case.clone();
    let (end, stats) = run_sim(&case.sched, move |ctl| {
        let net = new_net();
        let id = net.connect_raw(ConnOpts {
            cli_read_plan: c.cli_read_plan.clone(),
            cli_write_plan: c.cli_write_plan.clone(),
            ..Default::default()
        });
        let (r, w) = client_pair(&net, id);
        let mut cn = Connection::default();
        cn.reader = Some(BufReader::new(Box::new(r)));
        cn.writer = Some(Box::new(w));
        let conn = Arc::new(shuttle::sync::RwLock::new(cn));
        let results: Results = Arc::new(StdMutex::new(Vec::new()));
        let n = c.tasks.len();
        let done: Arc<Vec<AtomicBool>> = Arc::new((0..n).map(|_| AtomicBool::new(false)).collect());
        let mut handles = Vec::new();
        for (t, ops) in c.tasks.iter().enumerate() {
            let (net2, conn2, res2, ops2, done2) = (net.clone(), conn.clone(), results.clone(), ops.clone(), done.clone());
            handles.push(shuttle::thread::spawn(move || {
                run_task(net2, conn2, t, ops2, res2);
                done2[t].store(true, Ordering::SeqCst);
            }));
        }
        drop(conn);
        // ---- the fake server
        let mut rng = Rng::new(c.sched.seed ^ 0x5E17_E17E);
        let mut inbuf: Vec<u8> = Vec::new();
        let mut pending: VecDeque<u8> = VecDeque::new();
        let mut outstanding: Option<String> = None;
        let mut arrivals: Vec<Arrival> = Vec::new();
        let mut sv: Vec<Violation> = Vec::new();
        let mut chunk_pos = 0usize;
        let mut pushed = 0usize;
        let mut closed = false;
        let mut idle_quiescent_turns = 0;
        let mut hang = false;
        let mut max_frames = 0usize;
        let mut blocked_reported = false;
        let mut queued_total = 0usize;
        let mut frame_ends: Vec<(String, usize, usize)> = Vec::new();
        loop {
            let eager = c.eager > 0 && rng.below(100) < c.eager as u64;
            if eager {
                for _ in 0..rng.range(1, 3) {
                    shuttle::thread::yield_now();
                }
            } else {
                wait_quiescent(&ctl);
            }
            let incoming = net.server_take(id);
            let got = !incoming.is_empty();
            inbuf.extend_from_slice(&incoming);
            // complete frames
            let mut frames_now = 0usize;
            while let Some(p) = inbuf.iter().position(|b| *b == 0) {
                let frame: Vec<u8> = inbuf.drain(..=p).collect();
                let body = &frame[..frame.len() - 1];
                frames_now += 1;
                let seq = net.stamp("arrival".into());
                let v: Option<Value> = serde_json::from_slice(body).ok();
                let parsed = v.as_ref().and_then(|v| {
                    let tok = v.get("parameters")?.get("token")?.as_str()?.to_string();
                    let _m = v.get("method")?.as_str()?;
                    Some((tok, v.get("more") == Some(&json!(true)), v.get("oneway") == Some(&json!(true)), v["parameters"]["spec"].clone()))
                });
                match parsed {
                    None => sv.push(viol(
                        "C07",
                        "request-bytes-interleaved",
                        format!("the server received a frame that is not one whole request: {:?}", String::from_utf8_lossy(&body[..body.len().min(120)])),
                    )),
                    Some((tok, more, oneway, spec)) => {
                        if arrivals.iter().any(|a| a.token == tok) {
                            sv.push(viol("C07", "request-sent-twice", format!("request {} arrived twice", tok)));
                        }
                        arrivals.push(Arrival { token: tok.clone(), more, oneway, seq });
                        if oneway {
                            if let Some(o) = &outstanding {
                                // it was written after `o` (one pipe, in order) and before o's final
                                // reply was even released: the connection was busy, nothing may be written
                                sv.push(viol(
                                    "C07",
                                    "oneway-written-while-busy",
                                    format!("oneway request {} arrived while {} had not been given its final reply", tok, o),
                                ));
                            }
                        }
                        if !oneway {
                            if let Some(o) = &outstanding {
                                sv.push(viol(
                                    "C07",
                                    "two-calls-in-flight",
                                    format!("request {} arrived while {} had not been given its final reply", tok, o),
                                ));
                            }
                            outstanding = Some(tok.clone());
                            let conts = spec.get("conts").and_then(|x| x.as_u64()).unwrap_or(0);
                            let fin: RSpec = serde_json::from_value(spec["final"].clone()).unwrap_or(RSpec::Ok);
                            let err_at = spec.get("err_at").and_then(|x| x.as_u64());
                            for i in 0..conts {
                                let fr = if err_at == Some(i) {
                                    json!({"continues": true, "error": CUSTOM_ERR, "parameters": {"token": tok, "i": i}})
                                } else if c.cont_pad > 0 {
                                    json!({"continues": true, "parameters": {"token": tok, "i": i, "pad": "x".repeat(c.cont_pad)}})
                                } else {
                                    json!({"continues": true, "parameters": {"token": tok, "i": i}})
                                };
                                let mut b = serde_json::to_vec(&fr).unwrap();
                                b.push(0);
                                queued_total += b.len();
                                frame_ends.push((tok.clone(), i as usize, queued_total));
                                pending.extend(b);
                            }
                            let mut b = serde_json::to_vec(&final_frame(&fin, &tok)).unwrap();
                            b.push(0);
                            queued_total += b.len();
                            frame_ends.push((tok.clone(), conts as usize, queued_total));
                            pending.extend(b);
                        }
                    }
                }
            }
            max_frames = max_frames.max(frames_now);
            if !eager && !inbuf.is_empty() && !closed && !c.cli_write_plan.contains(&u16::MAX) {
                // at quiescence nobody is in the middle of a write
                sv.push(viol(
                    "C07",
                    "partial-request-at-quiescence",
                    format!("{} bytes of an unterminated request sit at the server while no client thread can run", inbuf.len()),
                ));
                inbuf.clear();
            }
            // at a quiescent moment every client operation that was invoked and has not returned is
            // waiting for reply bytes the server has not released yet - that is, it is the one call that
            // owns the connection. Any other open invocation waits somewhere it should not (on the
            // connection lock, say): "any other call fails immediately with a busy error".
            if !eager && !closed && !blocked_reported {
                let open: Vec<String> = {
                    let w = net.lock();
                    let mut open: Vec<String> = Vec::new();
                    for (_, _, e) in w.log.iter() {
                        if let crate::net::Ev::Note(n) = e {
                            if let Some(x) = n.strip_prefix("inv ") {
                                open.push(x.to_string());
                            } else if let Some(x) = n.strip_prefix("ret ") {
                                if let Some(p) = open.iter().position(|o| o == x) {
                                    open.remove(p);
                                }
                            }
                        }
                    }
                    open
                };
                for inv in open {
                    let tok = inv.split(' ').next().unwrap_or("").to_string();
                    let owner = outstanding.as_deref() == Some(tok.as_str()) && !pending.is_empty();
                    if !owner {
                        sv.push(viol(
                            "C07",
                            "blocked-instead-of-refused",
                            format!(
                                "operation `{}` was invoked and, with no thread able to run, has neither returned nor is it the call whose reply the server still holds ({:?}): it waits where it should have been refused or served at once",
                                inv, outstanding
                            ),
                        ));
                        blocked_reported = true;
                        break;
                    }
                }
            }
            let mut released = false;
            if !pending.is_empty() && !closed {
                let k = match c.srv_chunks.get(chunk_pos) {
                    Some(k) => {
                        chunk_pos += 1;
                        (*k as usize).max(1).min(pending.len())
                    }
                    None => pending.len(),
                };
                let mut k = k;
                let mut close_now = false;
                if let Some(lim) = c.eof_after {
                    if pushed + k >= lim {
                        k = lim.saturating_sub(pushed);
                        close_now = true;
                    }
                }
                let chunk: Vec<u8> = pending.drain(..k).collect();
                if !chunk.is_empty() {
                    net.server_push(id, &chunk);
                    pushed += chunk.len();
                }
                released = true;
                if close_now {
                    net.server_close(id);
                    closed = true;
                    pending.clear();
                }
                if pending.is_empty() {
                    outstanding = None;
                }
            }
            let all_done = done.iter().all(|d| d.load(Ordering::SeqCst));
            if all_done && pending.is_empty() {
                // anything that still arrives was sent by an operation that already returned
                let rest = net.server_take(id);
                if rest.is_empty() {
                    break;
                }
                inbuf.extend_from_slice(&rest);
                continue;
            }
            if !eager && !got && !released {
                idle_quiescent_turns += 1;
                if idle_quiescent_turns == 1 && !all_done {
                    // nothing can run, nothing to deliver, clients not finished: they hang
                    hang = true;
                    net.server_close(id);
                    closed = true;
                } else if idle_quiescent_turns > 3 {
                    break;
                }
            } else {
                idle_quiescent_turns = 0;
            }
        }
        let finished = done.iter().all(|d| d.load(Ordering::SeqCst));
        if finished {
            for h in handles {
                let _ = h.join();
            }
        }
        let w = net.lock();
        let mut o = out2.lock().unwrap();
        o.ops = results.lock().unwrap_or_else(|e| e.into_inner()).clone();
        o.arrivals = arrivals;
        o.server_violations = sv;
        o.log_hash = w.log_hash();
        o.hang = hang && c.eof_after.is_none();
        o.finished = finished;
        o.reply_bytes = pushed;
        o.cli_short_reads = w.cnt.cli_short_reads;
        o.cli_read_eintr = w.cnt.cli_read_eintr;
        o.cli_read_timeouts = w.cnt.cli_read_timeout;
        o.eof_fired = closed && c.eof_after.is_some();
        o.max_in_buffer_frames = max_frames;
        o.frame_ends = frame_ends;
        o.cli_reads = w
            .log
            .iter()
            .filter(|(_, _, e)| matches!(e, crate::net::Ev::CliRecv { what: "data", .. }))
            .map(|(s, _, _)| *s)
            .collect();
    });
    let mut o = std::mem::take(&mut *out.lock().unwrap_or_else(|e| e.into_inner()));
    o.ops.sort_by_key(|r| (r.inv, r.ret));
    o.busy_seen = o.ops.iter().filter(|r| r.outcome == "E:Busy").count() as u64;
    (end, stats, o)
}

fn conn_level(outcome: &str) -> bool {
    outcome.starts_with("E:Closed") || outcome.starts_with("E:Io") || outcome.starts_with("E:Serde") || outcome == "E:Busy" || outcome == "E:IteratorOldReply"
}

pub fn judge_k(case: &KCase, end: &SimEnd, o: &KObs) -> (Vec<Violation>, bool) {
    let mut v: Vec<Violation> = Vec::new();
    let has_more = case
        .tasks
        .iter()
        .flatten()
        .any(|op| matches!(op, KOp::More { .. } | KOp::MoreErr { .. } | KOp::MoreResend { .. } | KOp::MoreTyped { .. } | KOp::BusyRetryOneway { .. }));
    match end {
        SimEnd::Completed => {}
        SimEnd::Panic(t) => {
            v.push(viol("C07", "panic", format!("client code panicked: {}", t.chars().take(300).collect::<String>())));
            if has_more {
                // a more-iteration that dies in a panic neither yields its final reply nor ends
                v.push(viol("C05", "panic", format!("client code panicked while more-iterations were under way: {}", t.chars().take(300).collect::<String>())));
            }
            return (v, false);
        }
        SimEnd::Deadlock(t) => {
            v.push(viol("C07", "deadlock", format!("client threads deadlocked: {}", t.chars().take(300).collect::<String>())));
            if has_more {
                v.push(viol("C05", "deadlock", format!("client threads deadlocked while more-iterations were under way: {}", t.chars().take(300).collect::<String>())));
            }
            return (v, false);
        }
        SimEnd::StepBound => {
            v.push(viol("C07", "livelock", format!("the run never came to rest: {} scheduler steps without quiescence", crate::sched::MAX_STEPS)));
            return (v, false);
        }
    }
    v.extend(o.server_violations.iter().cloned());
    if o.hang {
        v.push(viol(
            "C07",
            "client-hangs",
            "client threads were blocked with nothing in flight: no request at the server, no reply owed".into(),
        ));
    }
    let faulty = case.eof_after.is_some() || case.cli_read_plan.contains(&u16::MAX) || case.cli_write_plan.contains(&u16::MAX);
    // per task, walk the script and compare
    for (t, ops) in case.tasks.iter().enumerate() {
        let recs: Vec<&OpRec> = o.ops.iter().filter(|r| r.task == t).collect();
        // once a `more` iteration is abandoned in this task, or anywhere: the connection stays busy
        for (oi, op) in ops.iter().enumerate() {
            let token = format!("t{}-{}", t, oi);
            let mine: Vec<&&OpRec> = recs.iter().filter(|r| r.op == oi).collect();
            let main = mine.iter().find(|r| matches!(r.what, "call" | "oneway" | "more" | "unser"));
            let main = match main {
                Some(m) => m,
                None => {
                    if !faulty && !o.hang {
                        v.push(viol("C07", "operation-never-returned", format!("operation {} {:?} never returned", token, op)));
                    }
                    continue;
                }
            };
            let sent = o.arrivals.iter().any(|a| a.token == token);
            if main.outcome == "E:Busy" || main.outcome == "E:CalledAlready" {
                if sent {
                    v.push(viol(
                        "C07",
                        "refused-call-left-bytes",
                        format!("{} returned {} but its request reached the server", token, main.outcome),
                    ));
                }
                if main.outcome == "E:Busy" && !faulty && !busy_legit(o, main) {
                    // C05's last clause: after a `more` iteration has ended the connection is free
                    let after_iteration = o.ops.iter().any(|r| {
                        (r.what == "item" || r.what == "end") && r.ret < main.inv && (r.what == "end" || !r.outcome.contains("\"i\":"))
                    });
                    if after_iteration {
                        v.push(viol(
                            "C05",
                            "connection-not-free-after-iteration",
                            format!(
                                "{} (events {}..{}) failed with ConnectionBusy: a more-iteration had ended before and no call owned the connection during the attempt",
                                token, main.inv, main.ret
                            ),
                        ));
                    }
                    v.push(viol(
                        "C07",
                        "busy-without-cause",
                        format!(
                            "{} (events {}..{}) failed with ConnectionBusy although no other call owned the connection during that interval",
                            token, main.inv, main.ret
                        ),
                    ));
                }
                continue;
            }
            match op {
                KOp::Call(spec) | KOp::Resend(spec) | KOp::Upgrade(spec) => {
                    let want = expected_outcome(spec, &token);
                    if main.outcome != want && !(faulty && conn_level(&main.outcome)) {
                        v.push(viol(
                            "C07",
                            if main.outcome.starts_with("Ok:") && main.outcome.contains("\"token\"") && want.starts_with("Ok:") { "reply-for-other-call" } else { "outcome" },
                            format!("{} call(): server replied {} -> expected {}, got {}", token, final_frame(spec, &token), want, main.outcome),
                        ));
                    }
                    if let KOp::Resend(_) = op {
                        if let Some(r2) = mine.iter().find(|r| r.what == "resend") {
                            if r2.outcome != "E:CalledAlready" {
                                v.push(viol(
                                    "C07",
                                    "second-send",
                                    format!("{}: a second call() on the same call object returned {} instead of MethodCalledAlready", token, r2.outcome),
                                ));
                            }
                        }
                        if o.arrivals.iter().filter(|a| a.token == token).count() > 1 {
                            v.push(viol("C07", "second-send", format!("{}: the request was written twice", token)));
                        }
                    }
                }
                KOp::CallTyped(spec) => {
                    let want = expected_typed(spec, &token);
                    let ok = if want == "E:Serde" { main.outcome.starts_with("E:Serde") } else { main.outcome == want };
                    if !ok && !(faulty && conn_level(&main.outcome)) {
                        v.push(viol(
                            "C07",
                            "outcome",
                            format!("{} typed call(): server replied {} -> expected {}, got {}", token, final_frame(spec, &token), want, main.outcome),
                        ));
                    }
                }
                KOp::MoreTyped { conts, fin } => {
                    if main.outcome != "Ok" {
                        if !(faulty && conn_level(&main.outcome)) {
                            v.push(viol("C05", "client-more-start", format!("{} more() returned {}", token, main.outcome)));
                        }
                        continue;
                    }
                    for j in 0..(*conts as usize + 2) {
                        let Some(it) = mine.iter().find(|r| (r.what == "item" || r.what == "end") && r.item == j) else {
                            if !faulty && !o.hang {
                                v.push(viol("C05", "client-iteration", format!("{}: next() #{} never returned", token, j)));
                            }
                            break;
                        };
                        let want = if j < *conts as usize {
                            format!("Ok:typed:{}", token)
                        } else if j == *conts as usize {
                            expected_typed(fin, &token)
                        } else {
                            "None".to_string()
                        };
                        let ok = if want == "E:Serde" { it.outcome.starts_with("E:Serde") } else { it.outcome == want };
                        if !ok {
                            if faulty {
                                break;
                            }
                            v.push(viol(
                                "C05",
                                "client-iteration",
                                format!("{}: typed more() with {} continues replies then {:?}: item #{} expected {}, got {}", token, conts, fin, j, want, it.outcome),
                            ));
                            break;
                        }
                    }
                }
                KOp::Unser { .. } => {
                    if !main.outcome.starts_with("E:SerdeSer") {
                        v.push(viol(
                            "C07",
                            "outcome",
                            format!("{}: a call whose parameters cannot be serialised returned {}", token, main.outcome),
                        ));
                    }
                    if sent {
                        v.push(viol("C07", "refused-call-left-bytes", format!("{} failed before sending, but a request reached the server", token)));
                    }
                }
                KOp::Oneway | KOp::OnewayResend => {
                    if let KOp::OnewayResend = op {
                        if let Some(r2) = mine.iter().find(|r| r.what == "resend") {
                            if r2.outcome != "E:CalledAlready" && !faulty {
                                v.push(viol(
                                    "C07",
                                    "second-send",
                                    format!("{}: a second send on a call object that was already sent with oneway() returned {} instead of MethodCalledAlready", token, r2.outcome),
                                ));
                            }
                        }
                        if o.arrivals.iter().filter(|a| a.token == token).count() > 1 {
                            v.push(viol("C07", "second-send", format!("{}: the request was written twice", token)));
                        }
                    }
                    if main.outcome != "Ok" && !(faulty && conn_level(&main.outcome)) {
                        v.push(viol("C04", "client-oneway", format!("{} oneway() returned {}", token, main.outcome)));
                    }
                    // with a single client thread, whatever is read from the connection between the
                    // invocation and the return of oneway() was read by oneway()
                    if case.tasks.len() == 1 {
                        let n = o.cli_reads.iter().filter(|s| **s > main.inv && **s < main.ret).count();
                        if n > 0 {
                            v.push(viol(
                                "C04",
                                "client-oneway",
                                format!("{} oneway() read from the connection {} time(s) before it returned ({}): a oneway call consumes no reply", token, n, main.outcome),
                            ));
                        }
                    }
                    if main.outcome == "Ok" && !sent && !faulty {
                        v.push(viol("C04", "client-oneway", format!("{} oneway() returned Ok but nothing reached the server", token)));
                    }
                }
                KOp::More { .. } | KOp::MoreErr { .. } | KOp::MoreResend { .. } | KOp::BusyRetryOneway { .. } => {
                    let resend_nexts: u8;
                    let (conts, fin, nexts, nested, err_at) = match op {
                        KOp::More { conts, fin, nexts, nested } => (conts, fin, nexts, nested, None),
                        KOp::MoreErr { conts, err_at, fin, nexts } => (conts, fin, nexts, &false, Some(*err_at as usize)),
                        KOp::MoreResend { conts, fin } | KOp::BusyRetryOneway { conts, fin } => {
                            resend_nexts = *conts + 2;
                            (conts, fin, &resend_nexts, &true, None)
                        }
                        _ => unreachable!(),
                    };
                    if let KOp::MoreResend { .. } = op {
                        if let Some(r2) = mine.iter().find(|r| r.what == "resend") {
                            if r2.outcome != "E:CalledAlready" && !faulty {
                                v.push(viol(
                                    "C07",
                                    "second-send",
                                    format!("{}: a second send on a call object that is still iterating returned {} instead of MethodCalledAlready", token, r2.outcome),
                                ));
                            }
                        }
                    }
                    if main.outcome != "Ok" {
                        if !(faulty && conn_level(&main.outcome)) {
                            v.push(viol("C05", "client-more-start", format!("{} more() returned {}", token, main.outcome)));
                        }
                        continue;
                    }
                    let mut broken = false;
                    for j in 0..*nexts as usize {
                        let it = mine.iter().find(|r| (r.what == "item" || r.what == "end") && r.item == j);
                        let it = match it {
                            Some(i) => i,
                            None => {
                                if !faulty && !o.hang {
                                    v.push(viol("C05", "client-iteration", format!("{}: next() #{} never returned", token, j)));
                                }
                                break;
                            }
                        };
                        let want = if j < *conts as usize && err_at == Some(j) {
                            // an error item in mid-stream: reported as that error, and the stream goes on
                            format!("E:Reply:{}:{}", CUSTOM_ERR, json!({"i": j, "token": token}))
                        } else if j < *conts as usize && case.cont_pad > 100_000 {
                            format!("Ok:{}", json!({"i": j, "pad": pad_mark(case.cont_pad), "token": token}))
                        } else if j < *conts as usize && case.cont_pad > 0 {
                            format!("Ok:{}", json!({"i": j, "pad": "x".repeat(case.cont_pad), "token": token}))
                        } else if j < *conts as usize {
                            format!("Ok:{}", json!({"i": j, "token": token}))
                        } else if j == *conts as usize {
                            expected_outcome(fin, &token)
                        } else {
                            "None".to_string()
                        };
                        if it.outcome != want {
                            if faulty && (conn_level(&it.outcome) || broken || it.outcome == "None") {
                                broken = true;
                                continue;
                            }
                            v.push(viol(
                                "C05",
                                "client-iteration",
                                format!(
                                    "{}: more() with {} continues replies then {:?}: item #{} expected {}, got {}",
                                    token, conts, fin, j, want, it.outcome
                                ),
                            ));
                            break;
                        }
                    }
                    if *nested {
                        if let Some(nr) = mine.iter().find(|r| r.what == "nested") {
                            let outstanding = *conts >= 1;
                            if outstanding && nr.outcome != "E:Busy" && !faulty {
                                v.push(viol(
                                    "C07",
                                    "no-busy-while-iterating",
                                    format!("{}: a new call while the more-iteration was outstanding returned {} instead of ConnectionBusy", token, nr.outcome),
                                ));
                            }
                            let retry = mine.iter().find(|r| r.what == "retry");
                            if nr.outcome == "E:Busy" && retry.is_none() && o.arrivals.iter().any(|a| a.token == nr.token) {
                                v.push(viol("C07", "refused-call-left-bytes", format!("{} returned Busy but its request reached the server", nr.token)));
                            }
                            if let Some(rt) = retry {
                                // the refused object issued again with oneway(): either it counts as
                                // used up (nothing is sent), or it goes out as what oneway() promises
                                let arr: Vec<&Arrival> = o.arrivals.iter().filter(|a| a.token == rt.token).collect();
                                if rt.outcome == "Ok" && !faulty {
                                    if arr.is_empty() {
                                        v.push(viol("C04", "client-oneway", format!("{}: oneway() on a call object that had been refused as busy returned Ok but nothing reached the server", rt.token)));
                                    } else if arr.iter().any(|a| !a.oneway) {
                                        v.push(viol(
                                            "C04",
                                            "client-oneway",
                                            format!("{}: oneway() on a call object that had been refused as busy returned Ok, but the request went out without oneway:true (the service answers it, the client never reads that answer)", rt.token),
                                        ));
                                    }
                                } else if !arr.is_empty() && rt.outcome != "Ok" {
                                    v.push(viol("C07", "refused-call-left-bytes", format!("{}: oneway() returned {} but a request reached the server", rt.token, rt.outcome)));
                                }
                            }
                        }
                    }
                }
            }
        }
    }
    // the server went away in mid-stream: a reply whose terminating NUL never arrived is no reply, it
    // must not be handed to the caller as a result (or as that reply's error)
    if let Some(lim) = case.eof_after {
        for r in &o.ops {
            let idx = match r.what {
                "call" => o.frame_ends.iter().filter(|f| f.0 == r.token).map(|f| f.1).max(),
                "item" => Some(r.item),
                _ => None,
            };
            let Some(idx) = idx else { continue };
            let from_reply = r.outcome.starts_with("Ok") || r.outcome.starts_with("E:Reply") || r.outcome.starts_with("E:InterfaceNotFound") || r.outcome.starts_with("E:MethodNot") || r.outcome.starts_with("E:InvalidParameter");
            if !from_reply {
                continue;
            }
            if let Some(f) = o.frame_ends.iter().find(|f| f.0 == r.token && f.1 == idx) {
                if f.2 > lim {
                    v.push(viol(
                        "C07",
                        "result-from-unterminated-reply",
                        format!(
                            "{} ({} #{}) returned {} although the server closed after {} reply bytes and this reply's terminating NUL would have been byte {}",
                            r.token,
                            r.what,
                            idx,
                            r.outcome.chars().take(80).collect::<String>(),
                            lim,
                            f.2
                        ),
                    ));
                }
            }
        }
    }
    // every arrival belongs to an operation of the script
    for a in &o.arrivals {
        let known = o.ops.iter().any(|r| r.token == a.token) || case.tasks.iter().enumerate().any(|(t, ops)| (0..ops.len()).any(|i| format!("t{}-{}", t, i) == a.token));
        if !known {
            v.push(viol("C07", "unknown-request", format!("request {} reached the server but belongs to no operation", a.token)));
        }
    }
    (v, false)
}

/// a ConnectionBusy result is legitimate only if another call owned (or may have owned) the
/// connection at some instant of the attempt
fn busy_legit(o: &KObs, attempt: &OpRec) -> bool {
    for r in &o.ops {
        if r.task == attempt.task && r.op == attempt.op && r.what == attempt.what {
            continue;
        }
        if !matches!(r.what, "call" | "more" | "nested") || r.outcome == "E:Busy" || r.outcome == "E:CalledAlready" {
            continue;
        }
        // ownership interval of r
        let start = r.inv;
        let end = if r.what != "more" {
            r.ret
        } else {
            // until its final item was handed back
            let mut e = u64::MAX;
            for it in o.ops.iter().filter(|x| x.task == r.task && x.op == r.op && (x.what == "item")) {
                let is_final = !it.outcome.contains("\"i\":");
                if is_final {
                    e = it.ret;
                }
            }
            e
        };
        if start <= attempt.ret && attempt.inv <= end {
            return true;
        }
    }
    false
}

pub fn eval_k(case: &KCase) -> RunResult {
    let (end, stats, o) = run_k(case);
    let (mut violations, inconclusive) = judge_k(case, &end, &o);
    let mut seen: Vec<(&'static str, String)> = Vec::new();
    violations.retain(|x| {
        let k = (x.prop, x.clause.clone());
        if seen.contains(&k) {
            false
        } else {
            seen.push(k);
            true
        }
    });
    let mut sig = Fnv::new();
    let mut nosched = case.clone();
    nosched.sched = SchedCfg::uniform(0);
    sig.str(&serde_json::to_string(&nosched).unwrap());
    sig.u64(stats.switch_hash);
    let mut lh = Fnv::new();
    lh.u64(o.log_hash);
    for r in &o.ops {
        lh.str(&format!("{} {} {} {} {}", r.token, r.what, r.item, r.inv, r.outcome));
    }
    let nthreads = case.tasks.len();
    RunResult {
        violations,
        sig: sig.0,
        nontrivial: case.tasks.iter().map(|t| t.len()).sum::<usize>() >= 2,
        faults: vec![
            ("client_short_read", o.cli_short_reads),
            ("client_read_eintr", o.cli_read_eintr),
            ("server_closed_mid_stream", o.eof_fired as u64),
            ("client_receive_timeout", o.cli_read_timeouts),
        ],
        probes: vec![
            ("connection_busy_returned", o.busy_seen),
            ("threads_ge_2", (nthreads >= 2) as u64),
            ("requests_reached_server", o.arrivals.len() as u64),
            ("two_requests_in_one_server_turn", (o.max_in_buffer_frames >= 2) as u64),
        ],
        sim_ms: 0,
        steps: stats.steps,
        log_hash: lh.0,
        inconclusive: inconclusive || (!o.finished && !matches!(end, SimEnd::Deadlock(_) | SimEnd::Panic(_)) && case.eof_after.is_none() && !o.hang),
        sample: Some(json!({
            "scenario": "K1",
            "tasks": case.tasks.iter().map(|t| format!("{:?}", t)).collect::<Vec<_>>(),
            "client_read_plan": case.cli_read_plan.iter().take(8).collect::<Vec<_>>(),
            "server_chunks": case.srv_chunks.iter().take(8).collect::<Vec<_>>(),
            "eof_after": case.eof_after,
            "history": o.ops.iter().take(24).map(|r| format!("[{}..{}] {} {}#{} -> {}", r.inv, r.ret, r.token, r.what, r.item, r.outcome)).collect::<Vec<_>>(),
            "scheduler_steps": stats.steps,
            "context_switches": stats.switches,
        })),
    }
}

pub fn shrinks(c: &KCase) -> Vec<KCase> {
    let mut v = Vec::new();
    if c.tasks.len() > 1 {
        for t in 0..c.tasks.len() {
            let mut n = c.clone();
            n.tasks.remove(t);
            v.push(n);
        }
    }
    for t in 0..c.tasks.len() {
        for i in 0..c.tasks[t].len() {
            let mut n = c.clone();
            n.tasks[t].remove(i);
            v.push(n);
        }
    }
    if !c.cli_read_plan.is_empty() {
        let mut n = c.clone();
        n.cli_read_plan.clear();
        v.push(n);
    }
    if !c.cli_write_plan.is_empty() {
        let mut n = c.clone();
        n.cli_write_plan.clear();
        v.push(n);
    }
    if !c.srv_chunks.is_empty() {
        let mut n = c.clone();
        n.srv_chunks.clear();
        v.push(n);
    }
    if c.eager > 0 {
        let mut n = c.clone();
        n.eager = 0;
        v.push(n);
    }
    v
}

pub fn pin_schedule(c: &KCase, prop: &str, clause: &str) -> KCase {
    let (_, stats, _) = run_k(c);
    let mut pinned = c.clone();
    pinned.sched.replay = Some(stats.choices.clone());
    let fails = |cand: &KCase| eval_k(cand).violations.iter().any(|v| v.prop == prop && v.clause == clause);
    if !fails(&pinned) {
        return c.clone();
    }
    let short = crate::sched::shrink_choices(
        &stats.choices,
        |ch| {
            let mut n = pinned.clone();
            n.sched.replay = Some(ch.to_vec());
            fails(&n)
        },
        40,
    );
    pinned.sched.replay = Some(short);
    pinned
}

// ---------------------------------------------------------------------------------------------
// spaces

pub const REAL_K: [&str; 4] = [
    "varlink::Connection (reader/writer slots) behind Arc<RwLock<..>>",
    "varlink::MethodCall::{new, send, call, more, next, recv, oneway}",
    "impl From<Reply> for ErrorKind (error-name mapping), Reply deserialisation",
    "std BufReader / read_until / write_all retry loops over the simulated socket",
];
pub const STUB_K: [&str; 3] = [
    "the server (scripted by the environment task: replies per request spec, withheld until its turn)",
    "the socket (simulated pipes: short reads, EINTR, short writes, server close in mid-stream)",
    "std threads and RwLock (shuttle coroutines; PlanScheduler decides every switch)",
];

fn all_specs() -> Vec<RSpec> {
    let mut v = vec![RSpec::Ok, RSpec::OkNoParams, RSpec::OkIllTyped, RSpec::OkBig];
    for name in 0..5u8 {
        for params in 0..4u8 {
            v.push(RSpec::Err { name, params });
        }
    }
    for name in 5..9u8 {
        for params in [0u8, 1] {
            v.push(RSpec::Err { name, params });
        }
    }
    v
}

fn op_alphabet() -> Vec<KOp> {
    vec![
        KOp::Call(RSpec::Ok),
        KOp::Call(RSpec::Err { name: 1, params: 0 }),
        KOp::Call(RSpec::Err { name: 4, params: 0 }),
        KOp::CallTyped(RSpec::OkIllTyped),
        KOp::Oneway,
        KOp::OnewayResend,
        KOp::Resend(RSpec::Ok),
        KOp::More { conts: 0, fin: RSpec::Ok, nexts: 2, nested: false },
        KOp::More { conts: 2, fin: RSpec::Ok, nexts: 4, nested: false },
        KOp::More { conts: 2, fin: RSpec::Err { name: 4, params: 1 }, nexts: 4, nested: true },
        KOp::More { conts: 1, fin: RSpec::Ok, nexts: 3, nested: true },
        KOp::MoreErr { conts: 2, err_at: 0, fin: RSpec::Ok, nexts: 4 },
        KOp::MoreResend { conts: 2, fin: RSpec::Ok },
        KOp::Unser { mode: 0 },
        KOp::Upgrade(RSpec::Ok),
        KOp::MoreTyped { conts: 1, fin: RSpec::OkIllTyped },
        KOp::BusyRetryOneway { conts: 1, fin: RSpec::Ok },
    ]
}

fn random_op(rng: &mut Rng, specs: &[RSpec], allow_abandon: bool) -> KOp {
    match rng.below(10) {
        0..=2 => KOp::Call(rng.pick(specs).clone()),
        3 if rng.chance(1, 4) => KOp::Upgrade(rng.pick(specs).clone()),
        3 if rng.chance(1, 3) => KOp::MoreTyped { conts: rng.range(0, 4) as u8, fin: rng.pick(specs).clone() },
        3 => KOp::CallTyped(rng.pick(specs).clone()),
        4 => KOp::Oneway,
        5 => if rng.chance(1, 3) { KOp::OnewayResend } else { KOp::Oneway },
        6 if rng.chance(1, 3) => KOp::Unser { mode: rng.below(3) as u8 },
        6 => KOp::Resend(rng.pick(specs).clone()),
        7 if rng.chance(1, 4) => KOp::BusyRetryOneway { conts: rng.range(1, 4) as u8, fin: rng.pick(specs).clone() },
        7 if rng.chance(1, 2) => KOp::MoreResend { conts: rng.range(1, 5) as u8, fin: rng.pick(specs).clone() },
        7 => {
            let conts = rng.range(1, 6) as u8;
            KOp::MoreErr {
                conts,
                err_at: rng.range(0, conts as u64 - 1) as u8,
                fin: rng.pick(specs).clone(),
                nexts: conts + 1 + rng.range(0, 2) as u8,
            }
        }
        _ => {
            let conts = rng.range(0, 8) as u8;
            let nexts = if allow_abandon && rng.chance(1, 10) { rng.range(0, conts as u64) as u8 } else { conts + 1 + rng.range(0, 2) as u8 };
            KOp::More {
                conts,
                fin: rng.pick(specs).clone(),
                nexts,
                nested: rng.chance(1, 3),
            }
        }
    }
}

fn io_plans(rng: &mut Rng, c: &mut KCase, eintr: bool) {
    if rng.chance(1, 2) {
        c.cli_read_plan = (0..rng.range(1, 40))
            .map(|_| if eintr && rng.chance(1, 6) { 0 } else { rng.range(1, 40) as u16 })
            .collect();
    }
    if rng.chance(1, 3) {
        c.cli_write_plan = (0..rng.range(1, 20)).map(|_| rng.range(1, 30) as u16).collect();
    }
    if rng.chance(1, 2) {
        c.srv_chunks = (0..rng.range(1, 40)).map(|_| rng.range(1, 50) as u16).collect();
    }
    if rng.chance(1, 3) {
        c.eager = *rng.pick(&[20u8, 50, 90]);
    }
}

fn base_case(tasks: Vec<Vec<KOp>>, sched: SchedCfg) -> KCase {
    KCase {
        tasks,
        cli_read_plan: vec![],
        cli_write_plan: vec![],
        srv_chunks: vec![],
        eager: 0,
        eof_after: None,
        cont_pad: 0,
        sched,
    }
}

pub fn c07_plan(tier: Tier) -> Plan {
    let mut spaces = Vec::new();
    // every reply object, one call each
    {
        let specs = all_specs();
        spaces.push(Space {
            name: "K.reply.all",
            size: specs.len() as u64 * 3,
            exhaustive: true,
            gen: Box::new(move |idx, seed| {
                let spec = specs[(idx / 3) as usize].clone();
                let op = match idx % 3 {
                    0 => KOp::Call(spec),
                    1 => KOp::CallTyped(spec),
                    _ => KOp::More { conts: 1, fin: spec, nexts: 3, nested: false },
                };
                Case::K(base_case(vec![vec![op, KOp::Call(RSpec::Ok)]], SchedCfg::uniform(seed)))
            }),
        });
    }
    // one thread: every operation sequence up to length 3 (quick) / 4 (thorough)
    {
        let alpha = op_alphabet();
        let a = alpha.len() as u64;
        let maxlen: u32 = if tier == Tier::Quick { 3 } else { 4 };
        let mut size = 0;
        for l in 1..=maxlen {
            size += a.pow(l);
        }
        spaces.push(Space {
            name: "K.seq.single-thread",
            size,
            exhaustive: true,
            gen: Box::new(move |mut idx, seed| {
                let mut len = 1u32;
                loop {
                    if idx < a.pow(len) {
                        break;
                    }
                    idx -= a.pow(len);
                    len += 1;
                }
                let mut ops = Vec::new();
                for _ in 0..len {
                    ops.push(alpha[(idx % a) as usize].clone());
                    idx /= a;
                }
                Case::K(base_case(vec![ops], SchedCfg::uniform(seed)))
            }),
        });
    }
    // 2..8 threads sharing the connection
    {
        let n = if tier == Tier::Quick { 40_000 } else { 1_500_000 };
        let specs = all_specs();
        spaces.push(Space {
            name: "K.threads.random",
            size: n,
            exhaustive: false,
            gen: Box::new(move |_idx, seed| {
                let mut rng = Rng::new(seed);
                let nt = if rng.chance(1, 5) { rng.range(2, 8) } else { rng.range(2, 3) } as usize;
                let abandon = rng.chance(1, 8);
                let tasks: Vec<Vec<KOp>> = (0..nt)
                    .map(|_| (0..rng.range(1, 6)).map(|_| random_op(&mut rng, &specs, abandon)).collect())
                    .collect();
                let mut c = base_case(tasks, SchedCfg::random(&mut rng, 1));
                io_plans(&mut rng, &mut c, false);
                Case::K(c)
            }),
        });
    }
    // long histories on one connection: 60..250 operations from one or two threads
    {
        let n = if tier == Tier::Quick { 300 } else { 10_000 };
        let specs = all_specs();
        spaces.push(Space {
            name: "K.seq.long",
            size: n,
            exhaustive: false,
            gen: Box::new(move |_idx, seed| {
                let mut rng = Rng::new(seed);
                let nt = rng.range(1, 2) as usize;
                let tasks: Vec<Vec<KOp>> = (0..nt).map(|_| (0..rng.range(60, 250)).map(|_| random_op(&mut rng, &specs, false)).collect()).collect();
                let mut c = base_case(tasks, SchedCfg::random(&mut rng, 1));
                io_plans(&mut rng, &mut c, false);
                Case::K(c)
            }),
        });
    }
    // fault-injecting configuration: EINTR on client reads, server closing in mid-stream
    {
        let n = if tier == Tier::Quick { 12_000 } else { 400_000 };
        let specs = all_specs();
        spaces.push(Space {
            name: "K.threads.faults",
            size: n,
            exhaustive: false,
            gen: Box::new(move |_idx, seed| {
                let mut rng = Rng::new(seed);
                let nt = rng.range(1, 4) as usize;
                let tasks: Vec<Vec<KOp>> = (0..nt)
                    .map(|_| (0..rng.range(1, 5)).map(|_| random_op(&mut rng, &specs, false)).collect())
                    .collect();
                let mut c = base_case(tasks, SchedCfg::random(&mut rng, 1));
                io_plans(&mut rng, &mut c, true);
                match rng.below(3) {
                    0 => c.eof_after = Some(rng.range(0, 300) as usize),
                    1 => {
                        // a receive timeout set on the socket fires once or twice while a reply is awaited
                        if c.cli_read_plan.is_empty() {
                            c.cli_read_plan = (0..rng.range(2, 20)).map(|_| rng.range(1, 40) as u16).collect();
                        }
                        for _ in 0..rng.range(1, 2) {
                            let p = rng.usize(c.cli_read_plan.len());
                            c.cli_read_plan[p] = u16::MAX;
                        }
                    }
                    _ => {
                        // a send timeout set on the socket fires once, after a partial write
                        if rng.chance(1, 2) {
                            if c.cli_write_plan.is_empty() {
                                c.cli_write_plan = (0..rng.range(2, 12)).map(|_| rng.range(1, 30) as u16).collect();
                            }
                            let p = rng.usize(c.cli_write_plan.len());
                            c.cli_write_plan[p] = u16::MAX;
                        }
                    }
                }
                Case::K(c)
            }),
        });
    }
    // the server closes after exactly k reply bytes, for every k: in particular between the last
    // byte of a reply's JSON text and its terminating NUL
    {
        let scripts: Vec<Vec<KOp>> = vec![
            vec![KOp::Call(RSpec::Ok), KOp::Call(RSpec::Ok)],
            vec![KOp::More { conts: 2, fin: RSpec::Ok, nexts: 4, nested: false }, KOp::Call(RSpec::Ok)],
            vec![KOp::Call(RSpec::Err { name: 1, params: 0 }), KOp::More { conts: 1, fin: RSpec::Err { name: 4, params: 1 }, nexts: 3, nested: false }],
            vec![KOp::CallTyped(RSpec::Ok), KOp::Oneway, KOp::Call(RSpec::Ok)],
        ];
        let per = 260u64;
        spaces.push(Space {
            name: "K.eof.every-offset",
            size: scripts.len() as u64 * per,
            exhaustive: true,
            gen: Box::new(move |idx, seed| {
                let mut c = base_case(vec![scripts[(idx / per) as usize].clone()], SchedCfg::uniform(seed));
                c.eof_after = Some((idx % per) as usize);
                if idx % 2 == 1 {
                    c.srv_chunks = vec![7; 64];
                }
                Case::K(c)
            }),
        });
    }
    Plan {
        spaces,
        rule: "K1: the real client against a scripted server on a simulated socket pair. (a) every reply object (with/without error; the four standard error names and a custom one, each with proper / absent / ill-typed / foreign parameters) plus results without parameters and with ill-typed parameters — through call() with a Value reply type, through call() with a typed reply struct, and as the final reply of a more() iteration; (b) one thread, every operation sequence over an 11-operation alphabet {call ok/std error/custom error, a call with a typed reply struct answered with parameters that do not decode, oneway, second send on the same object, more with 0..2 continues replies ending in a result or an error, an error item carrying continues:true in mid-stream, a second send on a call object that is still iterating, a second send after oneway(), new call while iterating} up to length 3 (quick) / 4 (thorough), complete; (c) 2..8 threads sharing one Arc<RwLock<Connection>>, 1..6 random operations each, under seeded schedules, with client short reads / short writes, replies released in random chunks, sometimes before quiescence; (d) the same with EINTR on client reads, a receive timeout (transient EAGAIN) firing while a reply is awaited, and the server closing in mid-stream (outcomes relaxed to: expected result or a connection-level error, never wrong data). Oracles: bytes at the server are whole requests, at most one non-oneway request in flight, a refused call leaves no bytes, every result carries its own token and the mapped error kind, ConnectionBusy only when another call's ownership interval (event sequence numbers) overlaps the attempt, second send = MethodCalledAlready, no hang. Distinct = (case, hash of the context-switch sequence).".into(),
        level: "exploration",
        real: REAL_K.to_vec(),
        stub: STUB_K.to_vec(),
        assumptions: vec![
            "a reply carrying continues:true to a call that did not ask for more is outside the explored reply space (no property says what the client owes then)".into(),
            "shuttle's RwLock model is faithful to std's".into(),
        ],
    }
}

/// C05 client side: scripted reply streams against the real iterator
pub fn c05_spaces(tier: Tier) -> Vec<Space> {
    let mut spaces = Vec::new();
    {
        // k continues replies x every final spec x followed by call / more / oneway+call
        let specs = all_specs();
        let kmax = 9u64;
        let size = kmax * specs.len() as u64 * 3;
        spaces.push(Space {
            name: "K.stream.all",
            size,
            exhaustive: true,
            gen: Box::new(move |idx, seed| {
                let k = (idx % kmax) as u8;
                let spec = specs[((idx / kmax) % specs.len() as u64) as usize].clone();
                let follow = idx / kmax / specs.len() as u64;
                let mut ops = vec![KOp::More { conts: k, fin: spec, nexts: k + 3, nested: false }];
                match follow {
                    0 => ops.push(KOp::Call(RSpec::Ok)),
                    1 => ops.push(KOp::More { conts: 1, fin: RSpec::Ok, nexts: 3, nested: false }),
                    _ => {
                        ops.push(KOp::Oneway);
                        ops.push(KOp::Call(RSpec::Ok));
                    }
                }
                Case::K(base_case(vec![ops], SchedCfg::uniform(seed)))
            }),
        });
    }
    {
        // the same through a typed reply struct: items that decode, then every final reply object
        // (some of which do not decode), then a call that must find the connection free
        let specs = all_specs();
        let kmax = 4u64;
        spaces.push(Space {
            name: "K.stream.typed",
            size: kmax * specs.len() as u64,
            exhaustive: true,
            gen: Box::new(move |idx, seed| {
                let k = (idx % kmax) as u8;
                let spec = specs[(idx / kmax) as usize].clone();
                let ops = vec![KOp::MoreTyped { conts: k, fin: spec }, KOp::Call(RSpec::Ok)];
                Case::K(base_case(vec![ops], SchedCfg::uniform(seed)))
            }),
        });
    }
    {
        // huge streams: 3..7 continues replies of 1..6 MiB each in one iteration (up to ~40 MiB in
        // total, every single reply far smaller), then ordinary traffic on the same connection
        let n = if tier == Tier::Quick { 6 } else { 60 };
        spaces.push(Space {
            name: "K.stream.huge",
            size: n,
            exhaustive: false,
            gen: Box::new(move |idx, seed| {
                let mut rng = Rng::new(seed);
                let (conts, pad) = match idx % 3 {
                    0 => (7u8, 6 << 20),
                    1 => (5u8, 4 << 20),
                    _ => (rng.range(3, 7) as u8, (rng.range(1, 6) as usize) << 20),
                };
                let ops = vec![
                    KOp::More { conts, fin: RSpec::Ok, nexts: conts + 2, nested: false },
                    KOp::Call(RSpec::Ok),
                    KOp::More { conts: 1, fin: RSpec::Ok, nexts: 3, nested: false },
                ];
                let mut c = base_case(vec![ops], SchedCfg::uniform(seed));
                c.cont_pad = pad;
                if idx % 2 == 1 {
                    c.srv_chunks = (0..40).map(|_| rng.range(20_000, 65_000) as u16).collect();
                }
                Case::K(c)
            }),
        });
    }
    {
        let n = if tier == Tier::Quick { 12_000 } else { 300_000 };
        let specs = all_specs();
        spaces.push(Space {
            name: "K.stream.segmented",
            size: n,
            exhaustive: false,
            gen: Box::new(move |_idx, seed| {
                let mut rng = Rng::new(seed);
                let mut ops = Vec::new();
                for _ in 0..rng.range(1, 3) {
                    let k = rng.range(0, 8) as u8;
                    // now and then an iteration is walked away from before its final reply: the
                    // connection then belongs to it for good, whatever comes next is refused as busy
                    let nexts = if k > 0 && rng.chance(1, 10) { rng.range(0, k as u64) as u8 } else { k + 1 + rng.range(0, 2) as u8 };
                    if k > 0 && rng.chance(1, 8) {
                        // an error item that carries continues:true in mid-stream: the stream goes on
                        ops.push(KOp::MoreErr { conts: k, err_at: rng.range(0, k as u64 - 1) as u8, fin: rng.pick(&specs).clone(), nexts: k + 1 + rng.range(0, 2) as u8 });
                    } else {
                        ops.push(KOp::More { conts: k, fin: rng.pick(&specs).clone(), nexts, nested: rng.chance(1, 4) });
                    }
                    // a call that the client refuses before it writes anything (parameters that do not
                    // serialise, a call object used twice) between an iteration and the next call
                    match rng.below(12) {
                        0 => ops.push(KOp::Unser { mode: rng.below(3) as u8 }),
                        1 => ops.push(KOp::Resend(RSpec::Ok)),
                        _ => {}
                    }
                    if rng.chance(1, 2) {
                        ops.push(KOp::Call(rng.pick(&specs).clone()));
                    }
                }
                let mut c = base_case(vec![ops], SchedCfg::random(&mut rng, 1));
                io_plans(&mut rng, &mut c, true);
                if rng.chance(1, 4) {
                    c.eof_after = Some(rng.range(0, 400) as usize);
                }
                Case::K(c)
            }),
        });
    }
    {
        // several threads share the connection while iterations end: the hand-back of the connection
        // at the final reply competes with the other threads' attempts
        let n = if tier == Tier::Quick { 8_000 } else { 250_000 };
        let specs = all_specs();
        spaces.push(Space {
            name: "K.stream.threads",
            size: n,
            exhaustive: false,
            gen: Box::new(move |_idx, seed| {
                let mut rng = Rng::new(seed);
                let nt = rng.range(2, 4) as usize;
                let tasks: Vec<Vec<KOp>> = (0..nt)
                    .map(|t| {
                        (0..rng.range(1, 5))
                            .map(|_| {
                                if t == 0 || rng.chance(1, 2) {
                                    let k = rng.range(0, 4) as u8;
                                    KOp::More { conts: k, fin: rng.pick(&specs).clone(), nexts: k + 1 + rng.range(0, 1) as u8, nested: false }
                                } else if rng.chance(1, 2) {
                                    KOp::Oneway
                                } else {
                                    KOp::Call(rng.pick(&specs).clone())
                                }
                            })
                            .collect()
                    })
                    .collect();
                let mut c = base_case(tasks, SchedCfg::random(&mut rng, 1));
                io_plans(&mut rng, &mut c, false);
                Case::K(c)
            }),
        });
    }
    spaces
}

/// C04 client side against the scripted server: oneway() returns after sending without consuming a
/// reply, the next call gets its own reply
pub fn c04_spaces(tier: Tier) -> Vec<Space> {
    let mut spaces = Vec::new();
    {
        // every pattern of oneway / call up to 6 operations
        let maxlen = 6u32;
        let mut size = 0u64;
        for l in 1..=maxlen {
            size += 2u64.pow(l);
        }
        spaces.push(Space {
            name: "K.oneway.patterns",
            size,
            exhaustive: true,
            gen: Box::new(move |mut idx, seed| {
                let mut len = 1u32;
                loop {
                    if idx < 2u64.pow(len) {
                        break;
                    }
                    idx -= 2u64.pow(len);
                    len += 1;
                }
                let ops: Vec<KOp> = (0..len).map(|i| if idx >> i & 1 == 1 { KOp::Oneway } else { KOp::Call(RSpec::Ok) }).collect();
                let mut c = base_case(vec![ops], SchedCfg::uniform(seed));
                c.eager = 50;
                Case::K(c)
            }),
        });
    }
    {
        // a call object refused as busy, later issued with oneway(), then ordinary traffic
        spaces.push(Space {
            name: "K.oneway.refused-then-oneway",
            size: 4 * 3 * 4,
            exhaustive: true,
            gen: Box::new(move |idx, seed| {
                let conts = 1 + (idx % 4) as u8;
                let fin = [RSpec::Ok, RSpec::Err { name: 4, params: 1 }, RSpec::OkBig][((idx / 4) % 3) as usize].clone();
                let mut ops = vec![KOp::BusyRetryOneway { conts, fin }];
                match idx / 12 {
                    0 => ops.push(KOp::Call(RSpec::Ok)),
                    1 => {
                        ops.push(KOp::Oneway);
                        ops.push(KOp::Call(RSpec::Ok));
                    }
                    2 => ops.push(KOp::More { conts: 2, fin: RSpec::Ok, nexts: 4, nested: false }),
                    _ => {
                        ops.insert(0, KOp::Oneway);
                        ops.push(KOp::CallTyped(RSpec::Ok));
                    }
                }
                let mut c = base_case(vec![ops], SchedCfg::uniform(seed));
                c.eager = if idx % 2 == 0 { 0 } else { 50 };
                Case::K(c)
            }),
        });
    }
    {
        let n = if tier == Tier::Quick { 6_000 } else { 150_000 };
        let specs = all_specs();
        spaces.push(Space {
            name: "K.oneway.threads",
            size: n,
            exhaustive: false,
            gen: Box::new(move |_idx, seed| {
                let mut rng = Rng::new(seed);
                let nt = rng.range(1, 3) as usize;
                // now and then an iteration is walked away from: the connection then stays busy
                let abandon = rng.chance(1, 4);
                let tasks: Vec<Vec<KOp>> = (0..nt)
                    .map(|_| {
                        (0..rng.range(1, 6))
                            .map(|_| if rng.chance(1, 2) { KOp::Oneway } else { random_op(&mut rng, &specs, abandon) })
                            .collect()
                    })
                    .collect();
                let mut c = base_case(tasks, SchedCfg::random(&mut rng, 1));
                io_plans(&mut rng, &mut c, false);
                Case::K(c)
            }),
        });
    }
    spaces
}
