//! stub (to be replaced)
use serde_derive::{Deserialize, Serialize};
use crate::report::RunResult;
#[derive(Clone, Debug, Serialize, Deserialize)]
pub struct KCase {}
pub fn eval_k(_c: &KCase) -> RunResult { RunResult::default() }
pub fn shrinks(_c: &KCase) -> Vec<KCase> { vec![] }
use crate::props::{Plan, Space};
use crate::report::Tier;
pub const REAL_K: [&str; 0] = [];
pub const STUB_K: [&str; 0] = [];
pub fn c04_spaces(_t: Tier) -> Vec<Space> { vec![] }
pub fn c05_spaces(_t: Tier) -> Vec<Space> { vec![] }
pub fn c07_plan(_t: Tier) -> Plan { unimplemented!() }
