//! Scenario P: the real `ThreadPool` (through the cfg-only wrapper `varlink::verif::VerifPool`)
//! under the controlled scheduler. The main task plays the acceptor: it submits jobs exactly like
//! `listen` does (`execute`), optionally waits for quiescence between submissions, and releases
//! job gates. A job stands for a long-lived connection: it registers as "in service", blocks on
//! its gate, and leaves.
//!
//! Oracles (C14):
//!  * bound      — at every event, jobs in service <= max
//!  * stranded   — at quiescence, a submitted job that has not started implies `max` jobs in service
//!  * exactly-once — after releasing all gates and dropping the pool every job ran exactly once
//!  * terminate  — dropping the pool returns (no deadlock)

use std::collections::BTreeSet;
use std::sync::{Arc, Mutex as StdMutex};

use serde_derive::{Deserialize, Serialize};
use serde_json::json;
use shuttle::sync::{Condvar, Mutex};

use crate::oracle::{viol, Violation};
use crate::props::{Plan, Space};
use crate::report::{RunResult, Tier};
use crate::rng::{Fnv, Rng};
use crate::sched::{run_sim, wait_quiescent, SchedCfg, SimEnd};

#[derive(Clone, Debug, Serialize, Deserialize, PartialEq)]
pub enum POp {
    Submit,
    Quiesce,
    /// open the gate of the n-th submitted job (ignored if not yet submitted)
    Release(usize),
}

#[derive(Clone, Debug, Serialize, Deserialize, PartialEq)]
pub struct PCase {
    pub initial: usize,
    pub max: usize,
    pub ops: Vec<POp>,
    pub sched: SchedCfg,
}

#[derive(Default)]
struct PState {
    active: usize,
    max_active: usize,
    started: Vec<u32>,
    finished: Vec<u32>,
    released: Vec<bool>,
    bound_broken: Option<String>,
}

#[derive(Default)]
struct POut {
    violations: Vec<Violation>,
    states: BTreeSet<(usize, usize, usize, usize)>,
    quiesce_points: u64,
    probes: Vec<(&'static str, u64)>,
    done: bool,
}

fn run_p(case: &PCase) -> (SimEnd, crate::sched::SimStats, POut) {
    let out: Arc<StdMutex<POut>> = Arc::new(StdMutex::new(POut::default()));
    let out2 = out.clone();
    let c = case.clone();
    let (end, stats) = run_sim(&case.sched, move |ctl| {
        let st = Arc::new((Mutex::new(PState::default()), Condvar::new()));
        let mut pool = varlink::verif::VerifPool::new(c.initial, c.max);
        let mut submitted = 0usize;
        let max = c.max;
        let mut grew_in_burst = 0u64;
        let mut burst_len = 0u64;
        let check_quiescent = |submitted: usize, pool: &varlink::verif::VerifPool, out: &Arc<StdMutex<POut>>, st: &Arc<(Mutex<PState>, Condvar)>| {
            let g = st.0.lock().unwrap();
            let started = g.started.iter().filter(|x| **x > 0).count();
            let waiting = submitted - started;
            let mut o = out.lock().unwrap();
            o.quiesce_points += 1;
            o.states.insert((pool.num_workers(), g.active, waiting, started));
            if waiting > 0 && g.active < max {
                o.violations.push(viol(
                    "C14",
                    "stranded",
                    format!(
                        "at quiescence {} submitted job(s) have not started although only {} of max {} are in service (workers={}, initial={})",
                        waiting,
                        g.active,
                        max,
                        pool.num_workers(),
                        c.initial
                    ),
                ));
            }
            if pool.num_workers() > max {
                o.violations.push(viol(
                    "C14",
                    "workers-over-max",
                    format!("pool has {} workers, max is {} (initial {})", pool.num_workers(), max, c.initial),
                ));
            }
        };
        for op in &c.ops {
            match op {
                POp::Submit => {
                    let j = submitted;
                    submitted += 1;
                    {
                        let mut g = st.0.lock().unwrap();
                        g.started.push(0);
                        g.finished.push(0);
                        g.released.push(false);
                    }
                    let st2 = st.clone();
                    let before = pool.num_workers();
                    pool.execute(move || {
                        let (m, cv) = &*st2;
                        let mut g = m.lock().unwrap();
                        g.started[j] += 1;
                        g.active += 1;
                        if g.active > g.max_active {
                            g.max_active = g.active;
                        }
                        if g.active > max && g.bound_broken.is_none() {
                            g.bound_broken = Some(format!(
                                "{} jobs in service at once, max is {} (job #{} just started)",
                                g.active, max, j
                            ));
                        }
                        while !g.released[j] {
                            g = cv.wait(g).unwrap();
                        }
                        g.active -= 1;
                        g.finished[j] += 1;
                    });
                    burst_len += 1;
                    if pool.num_workers() > before {
                        grew_in_burst += 1;
                    }
                }
                POp::Quiesce => {
                    wait_quiescent(&ctl);
                    check_quiescent(submitted, &pool, &out2, &st);
                    burst_len = 0;
                }
                POp::Release(j) => {
                    let mut g = st.0.lock().unwrap();
                    if *j < g.released.len() {
                        g.released[*j] = true;
                        drop(g);
                        st.1.notify_all();
                    }
                }
            }
        }
        wait_quiescent(&ctl);
        check_quiescent(submitted, &pool, &out2, &st);
        {
            let g = st.0.lock().unwrap();
            let mut o = out2.lock().unwrap();
            o.probes.push(("burst_of_3_or_more_submits", (burst_len >= 3) as u64));
            o.probes.push(("pool_grew", (grew_in_burst > 0) as u64));
            o.probes.push(("reached_max_in_service", (g.max_active == max) as u64));
        }
        // release everything and shut the pool down like `listen` does on return
        {
            let mut g = st.0.lock().unwrap();
            for r in g.released.iter_mut() {
                *r = true;
            }
        }
        st.1.notify_all();
        drop(pool);
        let g = st.0.lock().unwrap();
        let mut o = out2.lock().unwrap();
        if let Some(b) = &g.bound_broken {
            o.violations.push(viol("C14", "bound", b.clone()));
        }
        for j in 0..submitted {
            if g.started[j] != 1 || g.finished[j] != 1 {
                o.violations.push(viol(
                    "C14",
                    "exactly-once",
                    format!(
                        "job #{} started {} times and finished {} times after all gates were opened and the pool was dropped",
                        j, g.started[j], g.finished[j]
                    ),
                ));
            }
        }
        o.done = true;
    });
    let o = std::mem::take(&mut *out.lock().unwrap_or_else(|e| e.into_inner()));
    (end, stats, o)
}

pub fn eval_p(case: &PCase) -> RunResult {
    let (end, stats, mut o) = run_p(case);
    let mut inconclusive = false;
    match &end {
        SimEnd::Completed => {}
        SimEnd::Deadlock(t) => o.violations.push(viol(
            "C14",
            "deadlock",
            format!("pool deadlocked: {}", t.chars().take(200).collect::<String>()),
        )),
        SimEnd::Panic(t) => o.violations.push(viol(
            "C14",
            "panic",
            format!("pool code panicked: {}", t.chars().take(200).collect::<String>()),
        )),
        SimEnd::StepBound => o.violations.push(viol(
            "C14",
            "livelock",
            format!("the pool never came to rest: {} scheduler steps without quiescence", crate::sched::MAX_STEPS),
        )),
    }
    if matches!(end, SimEnd::Completed) && !o.done {
        inconclusive = true;
    }
    // dedupe identical violations (several quiescence points may report the same stranding)
    o.violations.dedup_by(|a, b| a.clause == b.clause);
    let mut sig = Fnv::new();
    sig.u64(case.initial as u64);
    sig.u64(case.max as u64);
    sig.str(&format!("{:?}", case.ops));
    sig.u64(stats.switch_hash);
    let mut lh = Fnv::new();
    lh.str(&format!("{:?}", o.states));
    lh.u64(stats.switch_hash);
    lh.u64(stats.steps);
    lh.str(&format!("{:?}", o.violations));
    let mut probes = o.probes.clone();
    probes.push(("fairness_forced_choice", (stats.fairness_forced > 0) as u64));
    for s in &o.states {
        if s.2 > 0 {
            probes.push(("job_waiting_with_all_slots_busy", 1));
            break;
        }
    }
    RunResult {
        violations: o.violations,
        sig: sig.0,
        nontrivial: stats.switches >= 4,
        faults: vec![],
        probes,
        sim_ms: 0,
        steps: stats.steps,
        log_hash: lh.0,
        inconclusive,
        sample: Some(json!({
            "scenario": "P",
            "initial": case.initial,
            "max": case.max,
            "ops": format!("{:?}", case.ops),
            "sched_mode": format!("{:?}", case.sched.mode),
            "scheduler_steps": stats.steps,
            "context_switches": stats.switches,
            "tasks": stats.tasks,
            "states_at_quiescence(workers,in_service,waiting,started)": o.states.iter().collect::<Vec<_>>(),
        })),
    }
}

pub fn shrinks(c: &PCase) -> Vec<PCase> {
    let mut v = Vec::new();
    for i in 0..c.ops.len() {
        let mut n = c.clone();
        n.ops.remove(i);
        v.push(n);
    }
    if c.initial > 1 {
        let mut n = c.clone();
        n.initial -= 1;
        v.push(n);
    }
    if !matches!(c.sched.mode, crate::sched::Mode::Uniform) && c.sched.replay.is_none() {
        let mut n = c.clone();
        n.sched.mode = crate::sched::Mode::Uniform;
        v.push(n);
    }
    v
}

/// record the choice list of a failing case so the replay file does not depend on the PRNG, then
/// shorten it while the same clause keeps failing
pub fn pin_schedule(c: &PCase, clause: &str) -> PCase {
    let (_, stats, _) = run_p(c);
    let mut pinned = c.clone();
    pinned.sched.replay = Some(stats.choices.clone());
    let fails = |cand: &PCase| eval_p(cand).violations.iter().any(|v| v.clause == clause);
    if !fails(&pinned) {
        return c.clone();
    }
    let short = crate::sched::shrink_choices(
        &stats.choices,
        |ch| {
            let mut n = pinned.clone();
            n.sched.replay = Some(ch.to_vec());
            fails(&n)
        },
        60,
    );
    pinned.sched.replay = Some(short);
    pinned
}

pub fn c14_plan(tier: Tier) -> Plan {
    let mut spaces = Vec::new();
    // systematic: every (initial <= max) configuration x k submissions x every quiesce pattern x seeds
    {
        let mut cfgs: Vec<(usize, usize, usize, u32)> = Vec::new();
        for initial in 1..=3usize {
            for max in 1..=4usize {
                for k in 1..=6usize {
                    for mask in 0..(1u32 << (k - 1)) {
                        cfgs.push((initial, max, k, mask));
                    }
                }
            }
        }
        let seeds: u64 = if tier == Tier::Quick { 15 } else { 200 };
        let size = cfgs.len() as u64 * seeds;
        spaces.push(Space {
            name: "P.burst.systematic",
            size,
            exhaustive: false,
            gen: Box::new(move |idx, seed| {
                let (initial, max, k, mask) = cfgs[(idx / seeds) as usize];
                let mut rng = Rng::new(seed);
                let mut ops = Vec::new();
                for i in 0..k {
                    ops.push(POp::Submit);
                    if i + 1 < k && mask & (1 << i) != 0 {
                        ops.push(POp::Quiesce);
                    }
                }
                crate::cases::Case::P(PCase {
                    initial,
                    max,
                    ops,
                    sched: SchedCfg::random(&mut rng, 0),
                })
            }),
        });
    }
    // random histories with connections ending while others arrive
    {
        let n = if tier == Tier::Quick { 40_000 } else { 1_500_000 };
        spaces.push(Space {
            name: "P.history.random",
            size: n,
            exhaustive: false,
            gen: Box::new(move |_idx, seed| {
                let mut rng = Rng::new(seed);
                let initial = rng.range(1, 3) as usize;
                let max = rng.range(1, 4) as usize;
                let k = rng.range(1, 7) as usize;
                let mut ops = Vec::new();
                let mut sub = 0usize;
                while sub < k {
                    match rng.below(6) {
                        0 | 1 | 2 => {
                            ops.push(POp::Submit);
                            sub += 1;
                        }
                        3 => ops.push(POp::Quiesce),
                        _ => {
                            if sub > 0 {
                                ops.push(POp::Release(rng.usize(sub)));
                            }
                        }
                    }
                }
                crate::cases::Case::P(PCase {
                    initial,
                    max,
                    ops,
                    sched: SchedCfg::random(&mut rng, 0),
                })
            }),
        });
    }
    // larger pools: a bound of 9..24 workers and more long-lived jobs than that
    {
        let n = if tier == Tier::Quick { 600 } else { 20_000 };
        spaces.push(Space {
            name: "P.burst.large",
            size: n,
            exhaustive: false,
            gen: Box::new(move |_idx, seed| {
                let mut rng = Rng::new(seed);
                let initial = rng.range(1, 3) as usize;
                let max = *rng.pick(&[8usize, 9, 10, 12, 16, 20, 24]);
                let k = max + rng.range(0, 4) as usize;
                let mut ops = Vec::new();
                for _ in 0..k {
                    ops.push(POp::Submit);
                    if rng.chance(1, 5) {
                        ops.push(POp::Quiesce);
                    }
                }
                crate::cases::Case::P(PCase { initial, max, ops, sched: SchedCfg::random(&mut rng, 0) })
            }),
        });
    }
    // long histories: the pool grows, drains, and is loaded again, several times over
    {
        let n = if tier == Tier::Quick { 2_000 } else { 60_000 };
        spaces.push(Space {
            name: "P.history.long",
            size: n,
            exhaustive: false,
            gen: Box::new(move |_idx, seed| {
                let mut rng = Rng::new(seed);
                let initial = rng.range(1, 3) as usize;
                let max = rng.range(1, 4) as usize;
                let mut ops = Vec::new();
                let mut sub = 0usize;
                let mut open: Vec<usize> = Vec::new();
                for _ in 0..rng.range(3, 8) {
                    // a wave of load ...
                    for _ in 0..rng.range(1, 5) {
                        ops.push(POp::Submit);
                        open.push(sub);
                        sub += 1;
                        if rng.chance(1, 3) {
                            ops.push(POp::Quiesce);
                        }
                    }
                    // ... that ends in a random order, usually completely
                    while !open.is_empty() && rng.chance(5, 6) {
                        let k = rng.usize(open.len());
                        ops.push(POp::Release(open.remove(k)));
                        if rng.chance(1, 2) {
                            ops.push(POp::Quiesce);
                        }
                    }
                    ops.push(POp::Quiesce);
                }
                crate::cases::Case::P(PCase { initial, max, ops, sched: SchedCfg::random(&mut rng, 0) })
            }),
        });
    }
    spaces.extend(crate::lsim::c14_spaces(tier));
    Plan {
        spaces,
        rule: "P: the real ThreadPool driven by an acceptor task under the controlled scheduler. Systematic: initial 1..3 x max 1..4 x 1..6 submissions x every pattern of 'wait for quiescence between two submissions' x 15 (quick) / 200 (thorough) seeded schedules (modes: uniform, sticky, PCT-like priorities, acceptor burst, starved worker; bounded-bypass fairness); larger pools (max 8..24, max..max+4 long-lived jobs); random: histories that also open gates (connections ending) between submissions; long histories of 3..8 waves of load that each drain (in random order) before the next. A run is distinct by (configuration, ops, hash of the context-switch sequence) and non-trivial when the schedule has >= 4 context switches. L: the real listen loop with pools {(1,1),(1,2),(1,3),(2,2),(2,3),(1,4),(3,4),(3,2)} x 2..6 long-lived connections x four arrival patterns (all connect then all send; one by one without waiting; one by one with a quiescence wait; connections ending in between) x 20 (quick) / 400 (thorough) seeded schedules; oracle: connections in service (first server-side I/O .. worker drops it) never exceed max_worker_threads at any event, and at quiescence an unserved connection implies max connections in service.".into(),
        level: "exploration",
        real: vec![
            "varlink::server::ThreadPool::{new, execute, drop, num_busy}",
            "varlink::server::Worker (worker loop, busy accounting)",
            "shuttle's model of std::thread / mpsc / Mutex / RwLock under the cfg hook",
            "varlink::listen accept loop and worker closure (L.pool.bursts)",
        ],
        stub: vec![
            "jobs (stand-ins for connection handlers: register, block on a gate, leave)",
            "the acceptor (submits like listen() does)",
            "thread scheduling (PlanScheduler decides every interleaving)",
        ],
        assumptions: vec![
            "shuttle's mpsc/Mutex/RwLock/thread model is faithful to std's blocking semantics".into(),
        ],
    }
}
