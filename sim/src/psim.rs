//! stub (to be replaced)
use serde_derive::{Deserialize, Serialize};
use crate::report::RunResult;
#[derive(Clone, Debug, Serialize, Deserialize)]
pub struct PCase {}
pub fn eval_p(_c: &PCase) -> RunResult { RunResult::default() }
pub fn shrinks(_c: &PCase) -> Vec<PCase> { vec![] }
use crate::props::Plan;
use crate::report::Tier;
pub fn c14_plan(_t: Tier) -> Plan { unimplemented!() }
