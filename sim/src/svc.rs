//! The real-code side of a simulated service: a real `varlink::VarlinkService` holding hand-written
//! scripted `varlink::Interface` implementations and the generated proxies of the IDL corpus.
//! Everything here calls into /repo; the model (model.rs) predicts what must come out.

use std::collections::HashMap;
use std::io::{BufRead, Write};
use std::sync::{Arc, Mutex};

use serde_json::{json, Value};
use varlink::{Call, CallTrait, Reply, VarlinkService};

use crate::model::{scripted_description, Dispatch, SvcCfg};

pub mod org_example_ping {
    #![allow(non_camel_case_types, non_snake_case, dead_code, unused_imports)]
    #![allow(clippy::all)]
    include!(concat!(env!("OUT_DIR"), "/org.example.ping.rs"));
}
pub mod org_example_more {
    #![allow(non_camel_case_types, non_snake_case, dead_code, unused_imports)]
    #![allow(clippy::all)]
    include!(concat!(env!("OUT_DIR"), "/org.example.more.rs"));
}

/// `Interface::get_name` / `get_description` want `&'static str`; intern instead of leaking per run.
pub fn intern(s: &str) -> &'static str {
    static TABLE: Mutex<Option<HashMap<String, &'static str>>> = Mutex::new(None);
    let mut g = TABLE.lock().unwrap_or_else(|e| e.into_inner());
    let t = g.get_or_insert_with(HashMap::new);
    if let Some(v) = t.get(s) {
        return v;
    }
    let leaked: &'static str = Box::leak(s.to_string().into_boxed_str());
    t.insert(s.to_string(), leaked);
    leaked
}

#[derive(Debug, Clone, PartialEq)]
pub struct OpResult {
    pub token: Value,
    pub op: usize,
    /// "ok" or the ErrorKind debug name
    pub result: String,
}

#[derive(Default, Debug)]
pub struct Recorder {
    /// calls that reached a scripted interface, in arrival order
    pub calls: Vec<Dispatch>,
    /// results of reply calls made by Script methods
    pub op_results: Vec<OpResult>,
    /// bytes/records processed by upgraded handlers, keyed by connection tag ("" in H)
    pub upgraded: Vec<(String, Vec<u8>)>,
    /// number of call_upgraded invocations
    pub upgraded_calls: u64,
}

pub type Rec = Arc<Mutex<Recorder>>;

fn lock(r: &Rec) -> std::sync::MutexGuard<'_, Recorder> {
    r.lock().unwrap_or_else(|e| e.into_inner())
}

pub struct Scripted {
    name: &'static str,
    desc: &'static str,
    rec: Rec,
    upgrade_mode: u8,
}

impl Scripted {
    pub fn new(name: &str, rec: Rec, upgrade_mode: u8) -> Scripted {
        Scripted {
            name: intern(name),
            desc: intern(&scripted_description(name)),
            rec,
            upgrade_mode,
        }
    }
}

/// shared upgraded handler (also used by the ping implementation)
fn upgraded_handler(
    rec: &Rec,
    mode: u8,
    call: &mut Call,
    bufreader: &mut dyn BufRead,
) -> varlink::Result<Vec<u8>> {
    lock(rec).upgraded_calls += 1;
    if mode == 1 {
        // V1: byte sink, consumes to EOF, writes nothing
        let mut buf = Vec::new();
        bufreader
            .read_to_end(&mut buf)
            .map_err(varlink::map_context!())?;
        let mut r = lock(rec);
        r.upgraded.push((String::new(), buf));
        return Ok(Vec::new());
    }
    if mode == 4 {
        // V4: length-prefixed frames. Peeks at what is buffered; consumes the length byte; if the
        // payload is not complete yet it hands the length byte back as unread and leaves the partial
        // payload in the reader
        loop {
            let (len, have) = {
                let b = loop {
                    match bufreader.fill_buf() {
                        Err(ref e) if e.kind() == std::io::ErrorKind::Interrupted => continue,
                        other => break other,
                    }
                };
                let b = b.map_err(varlink::map_context!())?;
                if b.is_empty() {
                    return Ok(Vec::new());
                }
                (b[0] as usize, b.len() - 1)
            };
            bufreader.consume(1);
            if have < len {
                // (the rest of what is buffered is a partial payload: it stays in the reader)
                return Ok(vec![len as u8]);
            }
            let mut payload = vec![0u8; len];
            bufreader.read_exact(&mut payload).map_err(varlink::map_context!())?;
            let mut rec_bytes = vec![len as u8];
            rec_bytes.extend_from_slice(&payload);
            lock(rec).upgraded.push((String::new(), rec_bytes));
        }
    }
    if mode == 5 {
        // V5: newline-terminated records like V2, but written against fill_buf()/consume() directly
        // and with `?` on every I/O result: a read interrupted by a signal ends the call with an error
        let mut acc: Vec<u8> = Vec::new();
        loop {
            let (lines, used) = {
                let b = bufreader.fill_buf().map_err(varlink::map_context!())?;
                if b.is_empty() {
                    return Ok(acc);
                }
                let mut lines: Vec<Vec<u8>> = Vec::new();
                let mut start = 0usize;
                for (i, c) in b.iter().enumerate() {
                    if *c == b'\n' {
                        let mut l = std::mem::take(&mut acc);
                        l.extend_from_slice(&b[start..=i]);
                        lines.push(l);
                        start = i + 1;
                    }
                }
                acc.extend_from_slice(&b[start..]);
                (lines, b.len())
            };
            bufreader.consume(used);
            for line in lines {
                lock(rec).upgraded.push((String::new(), line.clone()));
                call.writer.write_all(b"ack:").map_err(varlink::map_context!())?;
                call.writer.write_all(&line).map_err(varlink::map_context!())?;
                call.writer.flush().map_err(varlink::map_context!())?;
            }
        }
    }
    // V2: newline-terminated records; acknowledges each; an incomplete record is returned as unread
    // V3: like V2, but (as the repository's ping example does) a batch ends with the record "End\n":
    //     the handler returns there and is called again for the next batch
    loop {
        let mut line = Vec::new();
        let n = bufreader
            .read_until(b'\n', &mut line)
            .map_err(varlink::map_context!())?;
        if n == 0 {
            return Ok(Vec::new());
        }
        if line.last() != Some(&b'\n') {
            return Ok(line);
        }
        lock(rec).upgraded.push((String::new(), line.clone()));
        call.writer
            .write_all(b"ack:")
            .map_err(varlink::map_context!())?;
        call.writer
            .write_all(&line)
            .map_err(varlink::map_context!())?;
        call.writer.flush().map_err(varlink::map_context!())?;
        if mode == 3 && line == b"End\n" {
            return Ok(Vec::new());
        }
    }
}

impl varlink::Interface for Scripted {
    fn get_description(&self) -> &'static str {
        self.desc
    }
    fn get_name(&self) -> &'static str {
        self.name
    }
    fn call_upgraded(&self, call: &mut Call, bufreader: &mut dyn BufRead) -> varlink::Result<Vec<u8>> {
        upgraded_handler(&self.rec, self.upgrade_mode, call, bufreader)
    }
    fn call(&self, call: &mut Call) -> varlink::Result<()> {
        let req = call.request.unwrap();
        let method: String = req.method.to_string();
        let params = req.parameters.clone();
        let (more, oneway, upgrade) = (
            req.more == Some(true),
            req.oneway == Some(true),
            req.upgrade == Some(true),
        );
        lock(&self.rec).calls.push(Dispatch {
            iface: self.name.to_string(),
            method: method.clone(),
            more,
            oneway,
            upgrade,
            params: params.clone(),
        });
        let token = params
            .as_ref()
            .and_then(|p| p.get("token"))
            .cloned()
            .unwrap_or(Value::Null);
        let mname = method.rsplit('.').next().unwrap_or("");
        match mname {
            "Echo" => call.reply_struct(Reply::parameters(Some(json!({
                "token": token,
                "iface": self.name,
                "params": params.clone().unwrap_or(Value::Null),
                "flags": [more, oneway, upgrade],
            })))),
            "Fail" => call.reply_struct(Reply::error(
                format!("{}.Failed", self.name),
                Some(json!({ "token": token })),
            )),
            "Upgrade" => {
                call.to_upgraded();
                call.reply_struct(Reply::parameters(Some(json!({ "token": token }))))
            }
            // a relay-style method whose own downstream call failed: it writes nothing and hands the
            // downstream error reply up as its Err value
            "ErrReply" => Err(varlink::Error::from(varlink::ErrorKind::VarlinkErrorReply(Reply::error(
                format!("{}.Downstream", self.name),
                Some(json!({ "token": token })),
            )))),
            "Script" => {
                let ops: Vec<String> = params
                    .as_ref()
                    .and_then(|p| p.get("script"))
                    .and_then(|s| s.as_array())
                    .map(|a| a.iter().filter_map(|x| x.as_str().map(String::from)).collect())
                    .unwrap_or_default();
                let mut i = 0u64;
                for (k, op) in ops.iter().enumerate() {
                    let (base, ignore) = match op.strip_suffix('!') {
                        Some(b) => (b, true),
                        None => (op.as_str(), false),
                    };
                    let res = match base {
                        "c1" => {
                            call.set_continues(true);
                            continue;
                        }
                        "c0" => {
                            call.set_continues(false);
                            continue;
                        }
                        "u" => {
                            call.to_upgraded();
                            continue;
                        }
                        "r" => {
                            let idx = i;
                            i += 1;
                            call.reply_struct(Reply::parameters(Some(json!({"token": token, "i": idx}))))
                        }
                        "e" => {
                            let idx = i;
                            i += 1;
                            call.reply_struct(Reply::error(
                                format!("{}.ScriptError", self.name),
                                Some(json!({"token": token, "i": idx})),
                            ))
                        }
                        // the standard error helpers of CallTrait, usable in mid-stream like any reply
                        "ei" | "em" | "en" => {
                            let idx = i;
                            i += 1;
                            let arg = format!("{}#{}", token.as_str().unwrap_or(""), idx);
                            match base {
                                "ei" => call.reply_invalid_parameter(arg),
                                "em" => call.reply_method_not_found(arg),
                                _ => call.reply_method_not_implemented(arg),
                            }
                        }
                        _ => continue,
                    };
                    lock(&self.rec).op_results.push(OpResult {
                        token: token.clone(),
                        op: k,
                        result: match &res {
                            Ok(()) => "ok".to_string(),
                            Err(e) => format!("{:?}", e.kind()),
                        },
                    });
                    if let Err(e) = res {
                        if !ignore {
                            return Err(e);
                        }
                    }
                }
                Ok(())
            }
            _ => call.reply_method_not_found(method.clone()),
        }
    }
}

pub struct PingImpl {
    rec: Rec,
    upgrade_mode: u8,
}
impl org_example_ping::VarlinkInterface for PingImpl {
    fn ping(&self, call: &mut dyn org_example_ping::Call_Ping, ping: String) -> varlink::Result<()> {
        call.reply(ping)
    }
    fn upgrade(&self, call: &mut dyn org_example_ping::Call_Upgrade) -> varlink::Result<()> {
        call.to_upgraded();
        call.reply()
    }
    fn call_upgraded(&self, call: &mut Call, bufreader: &mut dyn BufRead) -> varlink::Result<Vec<u8>> {
        upgraded_handler(&self.rec, self.upgrade_mode, call, bufreader)
    }
}

pub struct MoreImpl;
impl org_example_more::VarlinkInterface for MoreImpl {
    fn ping(&self, call: &mut dyn org_example_more::Call_Ping, ping: String) -> varlink::Result<()> {
        call.reply(ping)
    }
    fn stop_serving(&self, call: &mut dyn org_example_more::Call_StopServing) -> varlink::Result<()> {
        call.reply()
    }
    fn test_more(&self, call: &mut dyn org_example_more::Call_TestMore, n: i64) -> varlink::Result<()> {
        use org_example_more::State;
        if !call.wants_more() {
            return call.reply_test_more_error("called without more".into());
        }
        call.set_continues(true);
        call.reply(State {
            start: Some(true),
            progress: None,
            end: None,
        })?;
        for i in 0..n.clamp(0, 64) {
            call.reply(State {
                start: None,
                progress: Some(i),
                end: None,
            })?;
        }
        call.set_continues(false);
        call.reply(State {
            start: None,
            progress: None,
            end: Some(true),
        })
    }
}

pub fn build_service(cfg: &SvcCfg, rec: &Rec) -> VarlinkService {
    let mut ifaces: Vec<Box<dyn varlink::Interface + Send + Sync>> = Vec::new();
    for n in &cfg.scripted {
        ifaces.push(Box::new(Scripted::new(n, rec.clone(), cfg.upgrade_mode)));
    }
    if cfg.ping {
        ifaces.push(Box::new(org_example_ping::new(Box::new(PingImpl {
            rec: rec.clone(),
            upgrade_mode: cfg.upgrade_mode,
        }))));
    }
    if cfg.more {
        ifaces.push(Box::new(org_example_more::new(Box::new(MoreImpl))));
    }
    VarlinkService::new(
        cfg.vendor.clone(),
        cfg.product.clone(),
        cfg.version.clone(),
        cfg.url.clone(),
        ifaces,
    )
}

pub fn new_rec() -> Rec {
    Arc::new(Mutex::new(Recorder::default()))
}
