//! Scenario L: the real `varlink::listen` loop (acceptor, `ThreadPool`, workers, `handle`) on the
//! simulated listener / sockets / clock under the controlled scheduler. The environment task plays
//! every peer and owns the timeline.

use std::sync::{Arc, Mutex as StdMutex};

use serde_derive::{Deserialize, Serialize};
use serde_json::{json, Value};
use shuttle::sync::atomic::{AtomicBool, Ordering};

use crate::cases::{canon_wire_hash, Case};
use crate::hsim::{Bytes, HCase};
use crate::model::{model_stream, split_nul, SvcCfg};
use crate::net::{new_net, ConnOpts, Ev, NetCounters, NetRef, SimListenerImpl};
use crate::oracle::{check_stream, viol, ObsEnd, StreamObs, Violation};
use crate::props::{Plan, Space};
use crate::report::{RunResult, Tier};
use crate::rng::{Fnv, Rng};
use crate::sched::{run_sim, wait_quiescent, CtlRef, SchedCfg, SimEnd};
use crate::svc::{build_service, new_rec};

#[derive(Clone, Copy, Debug, Serialize, Deserialize, PartialEq)]
pub enum Peer {
    /// reads its replies, half-closes when done
    Healthy,
    /// never reads (tiny window): server-side writes block until the environment releases it
    StopReading,
    /// a connection-level fault is injected somewhere in its script (reset / close with data in
    /// flight): only prefix consistency is required of it
    Faulty,
}

#[derive(Clone, Debug, Serialize, Deserialize, PartialEq)]
pub struct LConn {
    pub stream: Bytes,
    pub peer: Peer,
    pub srv_read_plan: Vec<u16>,
    pub srv_write_plan: Vec<u16>,
    pub s2c_cap: usize,
}

impl LConn {
    pub fn healthy(stream: &[u8]) -> LConn {
        LConn {
            stream: Bytes::from(stream),
            peer: Peer::Healthy,
            srv_read_plan: vec![],
            srv_write_plan: vec![],
            s2c_cap: 1 << 20,
        }
    }
}

#[derive(Clone, Debug, Serialize, Deserialize, PartialEq)]
pub enum Step {
    Connect(usize),
    /// send the next n bytes of the connection's stream
    Send(usize, usize),
    HalfClose(usize),
    Close(usize),
    Reset(usize),
    /// wait until nothing can happen without new input or time passing (healthy peers keep reading)
    Quiesce,
    /// let simulated time pass (stopping at every deadline on the way)
    Sleep(u64),
    SetStop,
    /// deliver a signal to the acceptor: its `select` returns -1/EINTR
    Signal,
    /// give up the processor for k scheduling decisions without waiting for quiescence
    Yield(u8),
}

#[derive(Clone, Debug, Serialize, Deserialize, PartialEq)]
pub struct LCase {
    pub cfg: SvcCfg,
    pub initial: usize,
    pub max: usize,
    pub idle_timeout: u64,
    pub stop_flag: bool,
    pub conns: Vec<LConn>,
    pub steps: Vec<Step>,
    pub sched: SchedCfg,
    /// percent of clock jumps that do not wait for quiescence first (slow-thread mode); 0 = fast-CPU mode
    pub slow_clock: u8,
    /// scenario K2: real `varlink::Connection` + `MethodCall` clients, each in its own task on its
    /// own connection, running beside the raw peers
    #[serde(default)]
    pub clients: Vec<RealClient>,
}

#[derive(Clone, Debug, Serialize, Deserialize, PartialEq)]
pub struct COp {
    pub method: String,
    pub params: Value,
    /// 0 call(), 1 more() iterated to the end, 2 oneway()
    pub mode: u8,
}

#[derive(Clone, Debug, Serialize, Deserialize, PartialEq)]
pub struct RealClient {
    pub ops: Vec<COp>,
    pub cli_read_plan: Vec<u16>,
    pub srv_read_plan: Vec<u16>,
}

#[derive(Default, Debug, Clone)]
pub struct RealObs {
    pub tx: Vec<u8>,
    pub rx: Vec<u8>,
    /// per operation: the outcomes it produced ("Ok:<json>", "E:<kind>", one per item for more())
    pub outcomes: Vec<Vec<String>>,
    pub finished: bool,
    pub accepted: bool,
    pub srv_shutdown: bool,
}

impl LCase {
    pub fn single(cfg: &SvcCfg, conn: LConn, steps: Vec<Step>, sched: SchedCfg) -> LCase {
        LCase {
            cfg: cfg.clone(),
            initial: 1,
            max: 4,
            idle_timeout: 0,
            stop_flag: false,
            conns: vec![conn],
            steps,
            sched,
            slow_clock: 0,
            clients: vec![],
        }
    }
    pub fn fault_injecting(&self) -> bool {
        self.steps.iter().any(|s| matches!(s, Step::Signal | Step::Reset(_) | Step::Close(_)))
            || self
                .conns
                .iter()
                .any(|c| c.peer != Peer::Healthy || c.srv_read_plan.contains(&0) || c.srv_write_plan.contains(&0))
    }
}

#[derive(Debug, Clone, Default)]
pub struct ConnObs {
    pub sent: Vec<u8>,
    pub rx: Vec<u8>,
    pub rx_at_checkpoint: Option<Vec<u8>>,
    pub sent_at_checkpoint: usize,
    /// bytes received when, after every peer had finished politely (half-close), nothing could happen
    /// any more - the listener still open, the clock not moved
    pub rx_len_after_release: Option<usize>,
    pub connected: bool,
    pub accepted: Option<(u64, u64)>,
    pub srv_first_io: Option<(u64, u64)>,
    pub srv_closed: Option<(u64, u64)>,
    pub srv_shutdown: Option<(u64, u64)>,
    pub client_saw_end: Option<(u64, u64, &'static str)>,
    pub client_closed: Option<(u64, u64)>,
    /// the script (not the final release) closed / reset this connection
    pub script_closed: bool,
    pub faulted_by_script: bool,
    pub multi_msg_reads: u64,
}

#[derive(Default)]
pub struct LObs {
    pub conns: Vec<ConnObs>,
    pub log: Vec<(u64, u64, Ev)>,
    pub cnt: NetCounters,
    pub listen_result: Option<(u64, u64, String)>,
    pub stop_set: Option<(u64, u64)>,
    pub released_at: Option<(u64, u64)>,
    pub listener_closed_by_env: bool,
    pub emergency: bool,
    pub end_time: u64,
    pub log_hash: u64,
    pub rec_calls: Vec<crate::model::Dispatch>,
    pub rec_upgraded: Vec<u8>,
    pub finished: bool,
    pub real: Vec<RealObs>,
}

struct Env {
    net: NetRef,
    ctl: CtlRef,
    rng: Rng,
    slow: u8,
    reading: Vec<bool>,
    offsets: Vec<usize>,
}

impl Env {
    fn drain_all(&self) -> usize {
        let mut n = 0;
        for (i, r) in self.reading.iter().enumerate() {
            if *r {
                n += self.net.client_drain(i);
            }
        }
        n
    }
    /// quiescence with healthy peers reading whatever arrives
    fn quiesce(&self) {
        loop {
            wait_quiescent(&self.ctl);
            if self.drain_all() == 0 {
                break;
            }
        }
    }
    fn busy_hint(&self) -> bool {
        false
    }
    /// let `ms` of simulated time pass, stopping at every deadline of a blocked `select`
    fn sleep(&mut self, ms: u64) {
        let target = self.net.lock().now + ms;
        loop {
            let slow = self.slow > 0 && self.rng.below(100) < self.slow as u64;
            if slow {
                for _ in 0..self.rng.range(0, 3) {
                    shuttle::thread::yield_now();
                }
                self.drain_all();
            } else {
                self.quiesce();
            }
            let (now, d) = {
                let w = self.net.lock();
                (w.now, w.select_deadline)
            };
            if now >= target {
                break;
            }
            match d {
                Some(d) if d > now && d <= target => self.net.set_clock(d, slow || self.busy_hint()),
                Some(d) if d <= now => {
                    // stale deadline: the acceptor has not run since the clock moved
                    shuttle::thread::yield_now();
                }
                _ => {
                    self.net.set_clock(target, slow);
                }
            }
        }
        if self.slow == 0 {
            self.quiesce();
        }
    }
}

pub fn run_l(case: &LCase) -> (SimEnd, crate::sched::SimStats, LObs) {
    let out: Arc<StdMutex<LObs>> = Arc::new(StdMutex::new(LObs::default()));
    let out2 = out.clone();
    let c = case.clone();
    let (end, stats) = run_sim(&case.sched, move |ctl| {
        let net = new_net();
        varlink::verif::register("l", Arc::new(SimListenerImpl { net: net.clone() }));
        let rec = new_rec();
        let svc = build_service(&c.cfg, &rec);
        let stop = if c.stop_flag {
            Some(Arc::new(AtomicBool::new(false)))
        } else {
            None
        };
        let lc = varlink::ListenConfig {
            initial_worker_threads: c.initial,
            max_worker_threads: c.max,
            idle_timeout: c.idle_timeout,
            stop_listening: stop.clone(),
            // (a field added to ListenConfig later keeps its default here)
            ..Default::default()
        };
        let net2 = net.clone();
        let listen_task = shuttle::thread::spawn(move || {
            let r = varlink::listen(svc, "sim:l", &lc);
            let text = match &r {
                Ok(()) => "Ok".to_string(),
                Err(e) => format!("Err({:?})", e.kind()),
            };
            let mut w = net2.lock();
            let s = w.ev(Ev::ListenReturn { result: text.clone() });
            let now = w.now;
            w.listen_result = Some((s, now, text));
            drop(w);
            net2.cv.notify_all();
        });
        // ---- K2: real clients
        let real_out: Arc<StdMutex<Vec<RealObs>>> = Arc::new(StdMutex::new(vec![RealObs::default(); c.clients.len()]));
        let mut real_ids: Vec<usize> = Vec::new();
        let mut real_handles = Vec::new();
        for (k, rc) in c.clients.iter().enumerate() {
            let id = net.connect(ConnOpts {
                srv_read_plan: rc.srv_read_plan.clone(),
                cli_read_plan: rc.cli_read_plan.clone(),
                ..Default::default()
            });
            real_ids.push(id);
            let (r, w) = crate::net::client_pair(&net, id);
            let (ops, ro) = (rc.ops.clone(), real_out.clone());
            real_handles.push(shuttle::thread::spawn(move || {
                let mut cn = varlink::Connection::default();
                cn.reader = Some(std::io::BufReader::new(Box::new(r)));
                cn.writer = Some(Box::new(w));
                let conn = Arc::new(shuttle::sync::RwLock::new(cn));
                for op in &ops {
                    let mut mc = varlink::MethodCall::<Value, Value, varlink::Error>::new(conn.clone(), op.method.clone(), op.params.clone());
                    let show = |r: std::result::Result<Value, varlink::Error>| match r {
                        Ok(v) => format!("Ok:{}", v),
                        Err(e) => format!("E:{:?}", e.kind()),
                    };
                    let mut outs: Vec<String> = Vec::new();
                    match op.mode {
                        0 => outs.push(show(mc.call())),
                        2 => outs.push(match mc.oneway() {
                            Ok(()) => "Ok".into(),
                            Err(e) => format!("E:{:?}", e.kind()),
                        }),
                        _ => match mc.more() {
                            Err(e) => outs.push(format!("E:{:?}", e.kind())),
                            Ok(it) => {
                                for (j, r) in it.enumerate() {
                                    outs.push(show(r));
                                    if j > 200 {
                                        break;
                                    }
                                }
                            }
                        },
                    }
                    ro.lock().unwrap_or_else(|e| e.into_inner())[k].outcomes.push(outs);
                }
                ro.lock().unwrap_or_else(|e| e.into_inner())[k].finished = true;
            }));
        }
        let n = c.conns.len();
        let streams: Vec<Vec<u8>> = c.conns.iter().map(|x| x.stream.to_vec()).collect();
        let mut env = Env {
            net: net.clone(),
            ctl: ctl.clone(),
            rng: Rng::new(c.sched.seed ^ 0xE17E_17E1),
            slow: c.slow_clock,
            reading: vec![false; n],
            offsets: vec![0; n],
        };
        let mut ids: Vec<Option<usize>> = vec![None; n];
        let mut script_closed = vec![false; n];
        let mut faulted = vec![false; n];
        for step in &c.steps {
            match step {
                Step::Connect(i) => {
                    if ids[*i].is_none() {
                        let lcn = &c.conns[*i];
                        let id = net.connect(ConnOpts {
                            srv_read_plan: lcn.srv_read_plan.clone(),
                            srv_write_plan: lcn.srv_write_plan.clone(),
                            cli_read_plan: vec![],
                            cli_write_plan: vec![],
                            s2c_cap: lcn.s2c_cap,
                        });
                        // connection ids are dense and in connect order; keep the mapping explicit
                        ids[*i] = Some(id);
                        if env.reading.len() <= id {
                            env.reading.resize(id + 1, false);
                        }
                        env.reading[id] = lcn.peer != Peer::StopReading;
                    }
                }
                Step::Send(i, k) => {
                    if let Some(id) = ids[*i] {
                        let s = &streams[*i];
                        let from = env.offsets[*i].min(s.len());
                        let to = (from + k).min(s.len());
                        if to > from && net.client_send(id, &s[from..to]) {
                            env.offsets[*i] = to;
                        }
                    }
                }
                Step::HalfClose(i) => {
                    if let Some(id) = ids[*i] {
                        net.client_half_close(id);
                        script_closed[*i] = true;
                    }
                }
                Step::Close(i) => {
                    if let Some(id) = ids[*i] {
                        net.client_close(id);
                        env.reading[id] = false;
                        script_closed[*i] = true;
                        faulted[*i] = true;
                    }
                }
                Step::Reset(i) => {
                    if let Some(id) = ids[*i] {
                        net.client_reset(id);
                        env.reading[id] = false;
                        script_closed[*i] = true;
                        faulted[*i] = true;
                    }
                }
                Step::Quiesce => env.quiesce(),
                Step::Sleep(ms) => env.sleep(*ms),
                Step::SetStop => {
                    if let Some(s) = &stop {
                        s.store(true, Ordering::SeqCst);
                        let mut w = net.lock();
                        let sq = w.ev(Ev::StopFlag);
                        let now = w.now;
                        if w.stop_flag_set_at.is_none() {
                            w.stop_flag_set_at = Some((sq, now));
                        }
                    }
                }
                Step::Signal => net.signal(),
                Step::Yield(k) => {
                    for _ in 0..*k {
                        shuttle::thread::yield_now();
                    }
                    env.drain_all();
                }
            }
        }
        // ---- checkpoint: everything that can happen has happened; stalled peers are still stalled
        env.quiesce();
        {
            let w = net.lock();
            let mut o = out2.lock().unwrap();
            o.conns = vec![ConnObs::default(); n];
            for i in 0..n {
                if let Some(id) = ids[i] {
                    o.conns[i].rx_at_checkpoint = Some(w.conns[id].client_rx.clone());
                    o.conns[i].sent_at_checkpoint = env.offsets[i];
                    // (also kept for the case that the run never gets to its regular end)
                    o.conns[i].connected = true;
                    o.conns[i].accepted = w.conns[id].accepted;
                }
            }
        }
        // ---- release: every peer that is still open finishes politely
        {
            let mut w = net.lock();
            let s = w.ev(Ev::Note("release".into()));
            let now = w.now;
            out2.lock().unwrap().released_at = Some((s, now));
        }
        for i in 0..n {
            if let Some(id) = ids[i] {
                env.reading[id] = !faulted[i];
                if !script_closed[i] {
                    net.client_half_close(id);
                }
            }
        }
        env.quiesce();
        {
            let w = net.lock();
            let mut o = out2.lock().unwrap();
            for i in 0..n {
                if let Some(id) = ids[i] {
                    o.conns[i].rx_len_after_release = Some(w.conns[id].client_rx.len());
                }
            }
        }
        // ---- let the server come to its own end where it is supposed to have one
        let budget = c.idle_timeout * 1000 * 3 + 3000;
        let t0 = net.lock().now;
        loop {
            env.quiesce();
            let (done, now, d) = {
                let w = net.lock();
                (w.listen_result.is_some(), w.now, w.select_deadline)
            };
            if done || now >= t0 + budget {
                break;
            }
            match d {
                Some(d) => net.set_clock(d.max(now + 1), false),
                None => break,
            }
        }
        let mut closed_by_env = false;
        let mut emergency = false;
        if net.lock().listen_result.is_none() {
            // no way for it to end by itself (or it failed to): close the listening socket
            closed_by_env = true;
            net.close_listener();
            env.quiesce();
            // a `select` poll may be pending: let it expire
            for _ in 0..4 {
                let (done, now, d) = {
                    let w = net.lock();
                    (w.listen_result.is_some(), w.now, w.select_deadline)
                };
                if done {
                    break;
                }
                if let Some(d) = d {
                    net.set_clock(d.max(now + 1), false);
                }
                env.quiesce();
            }
        }
        if net.lock().listen_result.is_none() {
            emergency = true;
            net.emergency_shutdown();
            env.quiesce();
        }
        let done = net.lock().listen_result.is_some();
        if done {
            let _ = listen_task.join();
            let all = real_out.lock().unwrap_or_else(|e| e.into_inner()).iter().all(|r| r.finished);
            if all {
                for h in real_handles {
                    let _ = h.join();
                }
            }
        }
        varlink::verif::unregister("l");
        // ---- copy the observation out
        let w = net.lock();
        let mut o = out2.lock().unwrap();
        for i in 0..n {
            let co = &mut o.conns[i];
            co.sent = streams[i][..env.offsets[i]].to_vec();
            co.script_closed = script_closed[i];
            co.faulted_by_script = faulted[i];
            if let Some(id) = ids[i] {
                let cn = &w.conns[id];
                co.connected = true;
                co.rx = cn.client_rx.clone();
                co.accepted = cn.accepted;
                co.srv_first_io = cn.srv_first_io;
                co.srv_closed = cn.srv_closed;
                co.srv_shutdown = cn.srv_shutdown;
                co.client_saw_end = cn.client_saw_end;
                co.client_closed = cn.client_closed;
                co.multi_msg_reads = cn.srv_reads_multi_msg;
            }
        }
        {
            let mut r = real_out.lock().unwrap_or_else(|e| e.into_inner()).clone();
            for (k, id) in real_ids.iter().enumerate() {
                r[k].tx = w.conns[*id].client_tx.clone();
                r[k].rx = w.conns[*id].client_rx.clone();
                r[k].accepted = w.conns[*id].accepted.is_some();
                r[k].srv_shutdown = w.conns[*id].srv_shutdown.is_some();
            }
            o.real = r;
        }
        o.log = w.log.clone();
        o.cnt = w.cnt.clone();
        o.listen_result = w.listen_result.clone();
        o.stop_set = w.stop_flag_set_at;
        o.listener_closed_by_env = closed_by_env;
        o.emergency = emergency;
        o.end_time = w.now;
        o.log_hash = w.log_hash();
        {
            let r = rec.lock().unwrap_or_else(|e| e.into_inner());
            o.rec_calls = r.calls.clone();
            let mut v = Vec::new();
            for (_, b) in &r.upgraded {
                v.extend_from_slice(b);
            }
            o.rec_upgraded = v;
        }
        o.finished = done;
    });
    let o = std::mem::take(&mut *out.lock().unwrap_or_else(|e| e.into_inner()));
    (end, stats, o)
}

// ---------------------------------------------------------------------------------------------
// oracles

fn tokens_in(v: &Value, out: &mut Vec<String>) {
    match v {
        Value::Object(o) => {
            for (k, x) in o {
                if k == "token" || k == "pong" {
                    if let Some(s) = x.as_str() {
                        out.push(s.to_string());
                    }
                }
                tokens_in(x, out);
            }
        }
        Value::Array(a) => a.iter().for_each(|x| tokens_in(x, out)),
        _ => {}
    }
}

/// does the same byte stream, fed to the in-memory handler in one piece, satisfy the model?
fn h_clean(cfg: &SvcCfg, sent: &[u8]) -> bool {
    let r = crate::cases::eval_h(&HCase::plain(cfg, sent));
    r.violations.is_empty()
}

pub struct LVerdict {
    pub violations: Vec<Violation>,
    pub inconclusive: bool,
    pub probes: Vec<(&'static str, u64)>,
}

pub fn judge_l(case: &LCase, end: &SimEnd, o: &LObs) -> LVerdict {
    let mut v: Vec<Violation> = Vec::new();
    let mut probes: Vec<(&'static str, u64)> = Vec::new();
    let mut inconclusive = false;
    match end {
        SimEnd::Completed => {}
        SimEnd::Panic(t) => {
            v.push(viol(
                "C06",
                "panic",
                format!("a server thread panicked: {}", t.chars().take(300).collect::<String>()),
            ));
            if case.conns.len() + case.clients.len() > 1 {
                // a panicking server thread poisons what the threads share (or takes the process
                // down): the other connections pay for it
                v.push(viol(
                    "C13",
                    "panic",
                    format!("a server thread panicked while {} connections were being served: {}", case.conns.len() + case.clients.len(), t.chars().take(300).collect::<String>()),
                ));
            }
            return LVerdict { violations: v, inconclusive: false, probes };
        }
        SimEnd::Deadlock(t) => {
            v.push(viol(
                "C15",
                "deadlock",
                format!(
                    "the server did not come to an end even after every peer closed and the listener was shut: {}",
                    t.chars().take(300).collect::<String>()
                ),
            ));
            // what was seen at the checkpoint still counts: a well-behaved connection that had sent its
            // requests and had not even been accepted while others were open was kept out by them
            if case.conns.len() > 1 && !case.steps.iter().any(|s| matches!(s, Step::SetStop)) {
                for (i, (lc, co)) in case.conns.iter().zip(o.conns.iter()).enumerate() {
                    let others_open = o.conns.iter().enumerate().filter(|(j, c)| *j != i && c.connected && c.accepted.is_some()).count();
                    if lc.peer == Peer::Healthy && co.connected && co.sent_at_checkpoint > 0 && co.accepted.is_none() && others_open > 0 && others_open < case.max {
                        v.push(viol(
                            "C13",
                            "blocked-by-other-connections",
                            format!(
                                "connection {} had connected and sent {} bytes of requests, but at quiescence it had not even been accepted although only {} other connection(s) had been (max_worker_threads={}); the run then ended in a deadlock of the server",
                                i, co.sent_at_checkpoint, others_open, case.max
                            ),
                        ));
                        break;
                    }
                }
            }
            return LVerdict { violations: v, inconclusive: false, probes };
        }
        SimEnd::StepBound => {
            // more than 10x the scheduler steps of the largest legitimate run: some server thread keeps
            // running without the system ever coming to rest (e.g. a worker spinning on a dead
            // connection). That contradicts every property decided on this scenario.
            for p in ["C01", "C02", "C06", "C13", "C15"] {
                v.push(viol(
                    p,
                    "livelock",
                    format!(
                        "the server never came to rest: {} scheduler steps without quiescence (a thread keeps running although no input arrives and no time passes)",
                        crate::sched::MAX_STEPS
                    ),
                ));
            }
            return LVerdict { violations: v, inconclusive: false, probes };
        }
    }
    if o.conns.len() != case.conns.len() {
        return LVerdict { violations: v, inconclusive: true, probes };
    }
    let multi = case.conns.len() + case.clients.len() > 1;
    // connections a worker was busy with when the peers were released
    let in_service_at_release = o
        .conns
        .iter()
        .filter(|c| {
            matches!((c.srv_first_io, o.released_at), (Some((s, _)), Some((r, _))) if s < r)
                && match (c.srv_closed, o.released_at) {
                    (Some((s, _)), Some((r, _))) => s > r,
                    (None, _) => true,
                    _ => false,
                }
        })
        .count();
    let listen_ret_seq = o.listen_result.as_ref().map(|x| x.0);
    let upgraders = o
        .conns
        .iter()
        .filter(|c| {
            model_stream(&case.cfg, &c.sent)
                .alts
                .iter()
                .any(|a| matches!(a.end, crate::model::End::Upgraded { .. }))
        })
        .count();
    // ---- per connection: replies vs model of its own traffic
    for (i, (lc, co)) in case.conns.iter().zip(o.conns.iter()).enumerate() {
        if !co.connected {
            continue;
        }
        let faulted = co.faulted_by_script;
        // token isolation, always strict
        let (frames, _) = split_nul(&co.rx);
        for f in &frames {
            if let Ok(val) = serde_json::from_slice::<Value>(f) {
                let mut toks = Vec::new();
                tokens_in(&val, &mut toks);
                for t in toks {
                    if let Some(rest) = t.strip_prefix('k') {
                        if rest.split_once('-').map_or(false, |(num, _)| num.parse::<usize>().is_ok()) {
                            v.push(viol(
                                "C13",
                                "foreign-token",
                                format!("raw connection {} received a reply carrying token {:?} of a real client", i, t),
                            ));
                        }
                    }
                    if let Some(rest) = t.strip_prefix('c') {
                        if let Some((num, _)) = rest.split_once('-') {
                            if let Ok(k) = num.parse::<usize>() {
                                if k != i {
                                    v.push(viol(
                                        "C13",
                                        "foreign-token",
                                        format!("connection {} received a reply carrying token {:?} of connection {}", i, t, k),
                                    ));
                                }
                            }
                        }
                    }
                }
            }
        }
        // not even accepted when, at the checkpoint, nothing could happen any more: an acceptor that is
        // where it belongs (waiting for connections) takes a pending connection at once, so it is held up
        // somewhere - by something that has to do with the connections that are open
        if multi && lc.peer == Peer::Healthy && !faulted && co.sent_at_checkpoint > 0 {
            let by_checkpoint = match (co.accepted, o.released_at) {
                (Some((a, _)), Some((r, _))) => a < r,
                (None, _) => false,
                _ => true,
            };
            let listen_over = match (listen_ret_seq, o.released_at) {
                (Some(l), Some((r, _))) => l < r,
                _ => false,
            };
            let stop_before = match (o.stop_set, o.released_at) {
                (Some(s), Some(rel)) => s.0 < rel.0,
                _ => false,
            };
            if !by_checkpoint && !listen_over && !stop_before && !o.emergency && in_service_at_release < case.max {
                v.push(viol(
                    "C13",
                    "blocked-by-other-connections",
                    format!(
                        "connection {} had connected and sent {} bytes of complete requests, but at quiescence it had not even been accepted although the server was accepting, {} other connection(s) were open and max_worker_threads is {}",
                        i, co.sent_at_checkpoint, in_service_at_release, case.max
                    ),
                ));
            }
        }
        if co.accepted.is_none() {
            // never accepted: a violation only if the server was still accepting when the peers were released
            let still_accepting = match (listen_ret_seq, o.released_at) {
                (Some(r), Some(rel)) => r > rel.0,
                (None, _) => true,
                _ => false,
            };
            let stop_before_release = match (o.stop_set, o.released_at) {
                (Some(s), Some(rel)) => s.0 < rel.0,
                _ => false,
            };
            if still_accepting && !stop_before_release && !o.emergency {
                v.push(viol(
                    if multi { "C14" } else { "C01" },
                    "never-accepted",
                    format!("connection {} was never accepted although the server was still accepting", i),
                ));
            }
            // the server stopped accepting on an idle timeout although a connection was open (it is
            // not idle then): whoever arrives afterwards is kept out by that open connection
            if case.slow_clock == 0 && case.idle_timeout > 0 {
                if let Some((ret_seq, _, text)) = &o.listen_result {
                    if text == "Err(Timeout)" {
                        let decision = o
                            .log
                            .iter()
                            .rev()
                            .find(|(s, _, e)| s < ret_seq && matches!(e, Ev::SelectReturn { what: "timeout", .. }))
                            .map(|(s, t, _)| (*s, *t));
                        if let Some((dseq, dt)) = decision {
                            let open: Vec<usize> = o
                                .conns
                                .iter()
                                .enumerate()
                                .filter(|(_, c)| match c.accepted {
                                    Some((aseq, _)) => aseq < dseq && c.srv_closed.map_or(true, |(cs, _)| cs > dseq),
                                    None => false,
                                })
                                .map(|(j, _)| j)
                                .collect();
                            if !open.is_empty() && !co.sent.is_empty() {
                                // ... and if one of the peers the server had to deal with sent malformed
                                // input or misbehaved, this later connection is paying for that
                                let misbehaved = case.conns.iter().zip(o.conns.iter()).enumerate().any(|(j, (lcj, cj))| {
                                    j != i && cj.connected && (lcj.peer != Peer::Healthy || cj.faulted_by_script || model_stream(&case.cfg, &cj.sent).has_malformed)
                                });
                                if misbehaved {
                                    v.push(viol(
                                        "C06",
                                        "neighbour-affected",
                                        format!(
                                            "connection {} arrived after a faulty peer had been dealt with and was never accepted: the server stopped accepting at t={} ms (idle timeout) although connection(s) {:?} were still open",
                                            i, dt, open
                                        ),
                                    ));
                                }
                                v.push(viol(
                                    "C13",
                                    "blocked-by-other-connections",
                                    format!(
                                        "connection {} had sent {} bytes of requests but was never accepted: the server stopped accepting at t={} ms (idle timeout) although connection(s) {:?} were still open, i.e. it was not idle",
                                        i,
                                        co.sent.len(),
                                        dt,
                                        open
                                    ),
                                ));
                            }
                        }
                    }
                }
            }
            continue;
        }
        let model = model_stream(&case.cfg, &co.sent);
        // how did the connection end from the client's point of view?
        // the server ended the connection by itself if it shut the stream down, or dropped it before
        // the client closed its side
        let server_ended_first = co.srv_shutdown.is_some()
            || match (co.srv_closed, co.client_closed) {
                (Some((s, _)), Some((c, _))) => s < c,
                (Some(_), None) => true,
                _ => false,
            };
        let end = if server_ended_first {
            ObsEnd::Closed {
                kind: if co.srv_shutdown.is_some() { "server shutdown" } else { "server dropped the stream" }.to_string(),
            }
        } else {
            ObsEnd::Open { tail: None, iface: None }
        };
        // a complete malformed message was on the wire well before the peers were released, the peer
        // itself kept the connection open: the *server* has to end it, and not only once the peer
        // finally goes away
        if !co.script_closed && !faulted {
            // only when the model leaves no alternative: every way of reading the stream ends at a
            // malformed message (nothing gray before it, no upgrade that turns the rest into payload)
            let first_bad = if !model.overflow
                && !model.alts.is_empty()
                && model.alts.iter().all(|a| matches!(a.end, crate::model::End::Closed { malformed: true, .. }))
            {
                model
                    .alts
                    .iter()
                    .filter_map(|a| match a.end {
                        crate::model::End::Closed { at, .. } => Some(at),
                        _ => None,
                    })
                    .max()
            } else {
                None
            };
            if let (Some(bad), Some((rel, _))) = (first_bad, o.released_at) {
                let sent_by_checkpoint = co.sent_at_checkpoint >= model.msgs[bad].end;
                let ended_before_release = match (co.srv_shutdown, co.srv_closed) {
                    (Some((s, _)), _) if s < rel => true,
                    (_, Some((s, _))) if s < rel => true,
                    _ => false,
                };
                if sent_by_checkpoint && !ended_before_release {
                    v.push(viol(
                        "C06",
                        "not-closed-after-malformed",
                        format!(
                            "connection {}: message #{} is malformed and the peer kept the connection open, but at quiescence the server had not ended the connection (it only did once the peer left)",
                            i, bad
                        ),
                    ));
                }
            }
        }
        let single_attr = !multi;
        let obs = StreamObs {
            wire: &co.rx,
            end,
            panicked: None,
            upgraded_record: if upgraders == 1
                && model.alts.iter().any(|a| matches!(a.end, crate::model::End::Upgraded { .. }))
                && !faulted
            {
                Some(o.rec_upgraded.clone())
            } else {
                None
            },
            dispatches: if single_attr && !faulted { Some(o.rec_calls.clone()) } else { None },
            socket: true,
            // (an upgraded handler of shape V5 passes a read that was interrupted by a signal on as an
            // error: the connection may end there, what it processed until then stays a prefix)
            faulted: faulted || lc.peer == Peer::Faulty || (case.cfg.upgrade_mode == 5 && lc.srv_read_plan.contains(&0)),
            upgrade_mode: case.cfg.upgrade_mode,
        };
        let verdict = check_stream(&case.cfg, &model, &obs);
        inconclusive |= verdict.inconclusive;
        if !verdict.violations.is_empty() {
            // C06's last clause: a well-behaved connection with a well-formed stream whose replies are
            // wrong while a malformed / hostile peer is (or was) connected to the same server
            let misbehaving_other = case.conns.iter().zip(o.conns.iter()).enumerate().any(|(j, (lcj, cj))| {
                j != i && cj.connected && (lcj.peer != Peer::Healthy || cj.faulted_by_script || model_stream(&case.cfg, &cj.sent).has_malformed)
            });
            if multi && misbehaving_other && lc.peer == Peer::Healthy && !faulted && !model.has_malformed && !model.has_gray {
                v.push(viol(
                    "C06",
                    "neighbour-affected",
                    format!(
                        "connection {} is well-behaved and sent only well-formed requests, yet its replies are wrong while a malformed / hostile peer was served by the same server: {}",
                        i,
                        verdict.violations[0].detail.chars().take(240).collect::<String>()
                    ),
                ));
            }
            // attribution: if the in-memory handler gets the same stream right, the discrepancy comes
            // from the socket path (segmentation: C02) or from concurrency (C13)
            let h_ok = h_clean(&case.cfg, &co.sent);
            for mut x in verdict.violations {
                if !multi && x.prop == "C13" {
                    // one connection only: "the service ended the connection before an earlier request
                    // was answered" is C01's clause, there is no other connection to blame
                    x.prop = "C01";
                }
                if h_ok && multi && matches!(x.clause.as_str(), "continues-without-more" | "oneway-answered") {
                    // what these two clauses say is a fact about the bytes on this connection, whoever
                    // is to blame for it: it stays with its property as well
                    let mut keep = x.clone();
                    keep.detail = format!("connection {}: {}", i, keep.detail);
                    v.push(keep);
                }
                if h_ok && matches!(x.prop, "C01" | "C03" | "C04" | "C05") {
                    let was = x.prop;
                    x.prop = if multi { "C13" } else if x.clause.starts_with("upgrade") { "C02" } else { was };
                    if multi {
                        x.detail = format!("connection {} (alone and in memory the same stream is served correctly; {}): {}", i, was, x.detail);
                    }
                } else if multi {
                    x.detail = format!("connection {}: {}", i, x.detail);
                }
                v.push(x);
            }
        }
        // liveness after the release: every peer has finished politely, the listener is still open, no
        // time has passed. What a connection only receives once the environment starts to force the end
        // (clock moved to the next deadline, listener closed) it was kept waiting for although nothing
        // stood in the way any more.
        if lc.peer == Peer::Healthy && !faulted && !case.steps.iter().any(|s| matches!(s, Step::SetStop)) {
            if let Some(k) = co.rx_len_after_release {
                if co.rx.len() > k && co.accepted.is_some() {
                    let (before, _) = split_nul(&co.rx[..k]);
                    let (all, _) = split_nul(&co.rx);
                    if all.len() > before.len() {
                        for p in ["C14", "C01"] {
                            v.push(viol(
                                p,
                                "served-only-when-the-server-was-forced-to-end",
                                format!(
                                    "connection {} had {} of its {} replies when every peer had finished and nothing could happen any more (listener open, {} slots); the rest only came once the environment moved the clock or closed the listener",
                                    i,
                                    before.len(),
                                    all.len(),
                                    case.max
                                ),
                            ));
                        }
                    }
                }
            }
        }
        // liveness at the checkpoint, while misbehaving peers were still stalled
        if lc.peer == Peer::Healthy && !faulted {
            if let Some(rx) = &co.rx_at_checkpoint {
                let sent = &co.sent[..co.sent_at_checkpoint.min(co.sent.len())];
                let m2 = model_stream(&case.cfg, sent);
                let obs2 = StreamObs {
                    wire: rx,
                    end: ObsEnd::Open { tail: None, iface: None },
                    panicked: None,
                    upgraded_record: None,
                    dispatches: None,
                    socket: true,
                    faulted: false,
                    upgrade_mode: case.cfg.upgrade_mode,
                };
                // a connection the server ended by then is judged by the final check above
                let ended_by_then = server_ended_first;
                if !ended_by_then {
                    let vd = check_stream(&case.cfg, &m2, &obs2);
                    for x in vd.violations {
                        if x.clause == "unanswered-while-open" {
                            // no worker had touched the connection when the peers were released
                            let stranded = match (co.srv_first_io, o.released_at) {
                                (None, _) => true,
                                (Some((s, _)), Some((r, _))) => s > r,
                                _ => false,
                            };
                            if stranded && in_service_at_release >= case.max {
                                // every slot is taken: waiting is what the bound demands
                                continue;
                            }
                            if stranded && multi {
                                // the same observation contradicts C13 as well: connections that merely
                                // sit there keep this one from being served
                                v.push(viol(
                                    "C13",
                                    "blocked-by-other-connections",
                                    format!(
                                        "connection {} had sent {} bytes of complete requests but no worker ever picked it up while {} other connection(s) were open (max_worker_threads={})",
                                        i,
                                        sent.len(),
                                        in_service_at_release,
                                        case.max
                                    ),
                                ));
                            }
                            // a peer that sent malformed or truncated input, or that does not read, is
                            // connected: it is that peer's presence this connection is paying for
                            let misbehaving_other_now = case.conns.iter().zip(o.conns.iter()).enumerate().any(|(j, (lcj, cj))| {
                                j != i && cj.connected && {
                                    let mj = model_stream(&case.cfg, &cj.sent[..cj.sent_at_checkpoint.min(cj.sent.len())]);
                                    lcj.peer != Peer::Healthy
                                        || cj.faulted_by_script
                                        || mj.has_malformed
                                        || mj.alts.iter().all(|a| matches!(&a.end, crate::model::End::Open { tail } if !tail.is_empty()))
                                }
                            });
                            if multi && misbehaving_other_now && !m2.has_malformed && !m2.has_gray {
                                v.push(viol(
                                    "C06",
                                    "neighbour-affected",
                                    format!(
                                        "connection {} is well-behaved and had sent {} bytes of complete well-formed requests, yet at quiescence, while a peer with malformed / truncated input or one that does not read was connected, {}",
                                        i,
                                        sent.len(),
                                        x.detail.chars().take(200).collect::<String>()
                                    ),
                                ));
                            }
                            if stranded || multi {
                                // whatever keeps it waiting: nothing can happen any more without new
                                // input, the request is complete, the connection open, slots are free
                                v.push(viol(
                                    "C01",
                                    "unanswered-while-open",
                                    format!(
                                        "connection {} had sent {} bytes of complete requests; at quiescence, with the connection open and fewer than max_worker_threads={} connections in service, {}",
                                        i,
                                        sent.len(),
                                        case.max,
                                        x.detail
                                    ),
                                ));
                            }
                            v.push(viol(
                                if stranded { "C14" } else if multi { "C13" } else { "C01" },
                                if stranded { "connection-stranded" } else { "not-served-while-others-stalled" },
                                format!(
                                    "connection {} had sent {} bytes of complete requests and was {} but at quiescence (other peers still stalled) {}",
                                    i,
                                    sent.len(),
                                    if co.accepted.is_some() { "accepted" } else { "waiting" },
                                    x.detail
                                ),
                            ));
                        }
                    }
                }
            }
        }
        if co.multi_msg_reads > 0 {
            probes.push(("one_server_read_returned_ge_2_requests", 1));
        }
    }
    // ---- C14 over the real listen loop: never more than max_worker_threads connections in service.
    // A connection is in service from the first server-side I/O on it until its worker drops it.
    {
        let mut marks: Vec<(u64, i32)> = Vec::new();
        for c in &o.conns {
            if let Some((s, _)) = c.srv_first_io {
                marks.push((s, 1));
                if let Some((e, _)) = c.srv_closed {
                    marks.push((e, -1));
                }
            }
        }
        marks.sort();
        let (mut cur, mut peak) = (0i32, 0i32);
        for (_, d) in &marks {
            cur += d;
            peak = peak.max(cur);
        }
        if peak as usize > case.max {
            v.push(viol(
                "C14",
                "bound",
                format!("{} connections were in service at the same time, max_worker_threads is {}", peak, case.max),
            ));
        }
        if peak as usize == case.max && case.conns.len() > case.max {
            probes.push(("pool_saturated_with_connections_waiting", 1));
        }
    }
    // ---- K2: real clients
    for (k, (rc, ro)) in case.clients.iter().zip(o.real.iter()).enumerate() {
        judge_real_client(case, k, rc, ro, &mut v, &mut probes);
    }
    // ---- C15: the life of the listen loop
    judge_c15(case, o, &mut v, &mut probes);
    LVerdict { violations: v, inconclusive, probes }
}

fn outcome_matches(frame: &Value, out: &str) -> bool {
    match frame.get("error").and_then(|e| e.as_str()) {
        None => {
            let want = frame.get("parameters").cloned().filter(|p| !p.is_null()).unwrap_or_else(|| json!({}));
            out == format!("Ok:{}", want)
        }
        Some(name) => {
            if !out.starts_with("E:") {
                return false;
            }
            let param = |field: &str| {
                frame
                    .get("parameters")
                    .and_then(|p| p.get(field))
                    .and_then(|s| s.as_str())
                    .unwrap_or("")
                    .to_string()
            };
            match name {
                "org.varlink.service.InterfaceNotFound" => out == format!("E:InterfaceNotFound({:?})", param("interface")),
                "org.varlink.service.MethodNotFound" => out == format!("E:MethodNotFound({:?})", param("method")),
                "org.varlink.service.MethodNotImplemented" => out == format!("E:MethodNotImplemented({:?})", param("method")),
                "org.varlink.service.InvalidParameter" => out == format!("E:InvalidParameter({:?})", param("parameter")),
                other => out.starts_with("E:VarlinkErrorReply(") && out.contains(other),
            }
        }
    }
}

fn conn_level_err(out: &str) -> bool {
    out.starts_with("E:ConnectionClosed") || out.starts_with("E:Io(") || out.starts_with("E:ConnectionBusy") || out.starts_with("E:SerdeJson")
}

/// scenario K2: a real client talking to the real server. Server side: the wire against the model of
/// what the client sent. Client side: every outcome against the frames that were on the wire.
fn judge_real_client(case: &LCase, k: usize, rc: &RealClient, ro: &RealObs, v: &mut Vec<Violation>, probes: &mut Vec<(&'static str, u64)>) {
    if !ro.accepted {
        return;
    }
    {
        let (frames, _) = split_nul(&ro.rx);
        for f in &frames {
            if let Ok(val) = serde_json::from_slice::<Value>(f) {
                let mut toks = Vec::new();
                tokens_in(&val, &mut toks);
                for t in toks {
                    let own = format!("k{}-", k);
                    let tagged = (t.starts_with('k') || t.starts_with('c')) && t[1..].split_once('-').map_or(false, |(n, _)| n.parse::<usize>().is_ok());
                    if tagged && !t.starts_with(&own) {
                        v.push(viol(
                            "C13",
                            "foreign-token",
                            format!("real client {} received a reply carrying token {:?} of another connection", k, t),
                        ));
                    }
                }
            }
        }
    }
    let model = model_stream(&case.cfg, &ro.tx);
    let obs = StreamObs {
        wire: &ro.rx,
        end: if ro.srv_shutdown {
            ObsEnd::Closed { kind: "server shutdown".into() }
        } else {
            ObsEnd::Open { tail: None, iface: None }
        },
        panicked: None,
        upgraded_record: None,
        dispatches: None,
        socket: true,
        faulted: false,
        upgrade_mode: case.cfg.upgrade_mode,
    };
    let vd = check_stream(&case.cfg, &model, &obs);
    let wire_ok = vd.violations.is_empty();
    for mut x in vd.violations {
        x.detail = format!("real client {}: {}", k, x.detail);
        v.push(x);
    }
    if !ro.finished {
        v.push(viol(
            "C07",
            "client-hangs",
            format!("real client {} did not finish its {} operations (completed {})", k, rc.ops.len(), ro.outcomes.len()),
        ));
        return;
    }
    if !wire_ok {
        return;
    }
    probes.push(("real_client_finished", 1));
    let (raw, _) = split_nul(&ro.rx);
    let frames: Vec<Value> = raw.iter().map(|f| serde_json::from_slice(f).unwrap_or(Value::Null)).collect();
    let mut fi = 0usize;
    let mut prev_oneway = false;
    let mut dead = false;
    for (oi, (op, outs)) in rc.ops.iter().zip(ro.outcomes.iter()).enumerate() {
        if op.mode == 2 {
            // once the server has ended the connection a write may or may not fail
            if outs.len() != 1 || (outs[0] != "Ok" && !((dead || ro.srv_shutdown) && conn_level_err(&outs[0]))) {
                v.push(viol("C04", "client-oneway", format!("real client {} op #{} oneway({}) returned {:?}", k, oi, op.method, outs)));
            }
            prev_oneway = true;
            continue;
        }
        // this operation's reply group on the wire
        let start = fi;
        while fi < frames.len() {
            let cont = frames[fi].get("continues") == Some(&json!(true));
            fi += 1;
            if !cont {
                break;
            }
        }
        let group = &frames[start..fi];
        let complete = group.last().map_or(false, |f| f.get("continues") != Some(&json!(true)));
        if !complete {
            // the server ended the connection: every further outcome is a connection-level error
            dead = true;
        }
        let clause_prop: &'static str = if prev_oneway { "C04" } else if op.mode == 1 { "C05" } else { "C07" };
        let clause = if prev_oneway { "call-after-oneway" } else if op.mode == 1 { "client-iteration" } else { "client-outcome" };
        prev_oneway = false;
        if op.mode == 0 {
            let ok = match group.last() {
                Some(f) if complete => outs.len() == 1 && outcome_matches(f, &outs[0]),
                _ => outs.len() == 1 && conn_level_err(&outs[0]),
            };
            if !ok {
                v.push(viol(
                    clause_prop,
                    clause,
                    format!(
                        "real client {} op #{} call({}): the wire carried {} but the call returned {:?}",
                        k,
                        oi,
                        op.method,
                        group.last().map(|f| f.to_string()).unwrap_or_else(|| "nothing (connection ended)".into()),
                        outs
                    ),
                ));
            }
        } else {
            let mut ok = true;
            for (j, f) in group.iter().enumerate() {
                match outs.get(j) {
                    Some(o) if outcome_matches(f, o) => {}
                    _ => ok = false,
                }
            }
            if complete {
                ok &= outs.len() == group.len();
            } else {
                // the stream broke: the next item must be a connection-level error (how the iterator
                // goes on after that is not specified by any property)
                ok &= outs.len() > group.len() && outs[group.len()..].iter().all(|o| conn_level_err(o));
            }
            if !ok {
                v.push(viol(
                    clause_prop,
                    clause,
                    format!(
                        "real client {} op #{} more({}): the wire carried {} frames {:?}, the iteration yielded {:?}",
                        k,
                        oi,
                        op.method,
                        group.len(),
                        group.iter().map(|f| f.to_string().chars().take(80).collect::<String>()).collect::<Vec<_>>(),
                        outs
                    ),
                ));
            }
        }
        if dead {
            break;
        }
    }
}

fn judge_c15(case: &LCase, o: &LObs, v: &mut Vec<Violation>, probes: &mut Vec<(&'static str, u64)>) {
    let res = match &o.listen_result {
        Some(r) => r.clone(),
        None => {
            v.push(viol(
                "C15",
                "listen-does-not-return",
                "listen() had not returned after every peer closed, the listener was shut and every blocking call was failed".into(),
            ));
            return;
        }
    };
    let (ret_seq, ret_t, text) = (res.0, res.1, res.2.as_str());
    let fast = case.slow_clock == 0;
    let injected_signal = case.steps.iter().any(|s| matches!(s, Step::Signal));
    // decision time: last select timeout before the return
    let decision = o
        .log
        .iter()
        .rev()
        .find(|(s, _, e)| *s < ret_seq && matches!(e, Ev::SelectReturn { what: "timeout", .. }))
        .map(|(s, t, _)| (*s, *t));
    let last_accept = o
        .log
        .iter()
        .rev()
        .find(|(s, _, e)| *s < ret_seq && matches!(e, Ev::AcceptReturn { c: Some(_) }))
        .map(|(_, t, _)| *t);
    let natural = !o.listener_closed_by_env && !o.emergency;
    match text {
        "Err(Timeout)" => {
            probes.push(("listen_returned_timeout", 1));
            if case.idle_timeout == 0 {
                v.push(viol("C15", "timeout-without-idle-timeout", "listen() returned Timeout although no idle timeout is configured".into()));
            } else if let Some((dseq, dt)) = decision {
                let since = last_accept.unwrap_or(0);
                if dt < since + case.idle_timeout * 1000 {
                    v.push(viol(
                        "C15",
                        "timeout-early",
                        format!(
                            "listen() decided Timeout at t={} ms, only {} ms after the last accepted connection (t={} ms); idle_timeout is {} s",
                            dt,
                            dt - since,
                            since,
                            case.idle_timeout
                        ),
                    ));
                }
                if fast {
                    // nobody may be in service at the decision
                    for (i, c) in o.conns.iter().enumerate() {
                        if let Some((aseq, _)) = c.accepted {
                            let open_at_decision = aseq < dseq && c.srv_closed.map_or(true, |(cs, _)| cs > dseq);
                            if open_at_decision {
                                v.push(viol(
                                    "C15",
                                    "timeout-while-serving",
                                    format!("listen() decided Timeout at t={} ms while connection {} was still being served", dt, i),
                                ));
                            }
                        }
                    }
                }
                // nobody ever came: the timeout is due exactly one idle period after the start
                // (signals interrupting the wait must not stretch it)
                if fast && last_accept.is_none() && dt > case.idle_timeout * 1000 + 100 {
                    v.push(viol(
                        "C15",
                        "timeout-late",
                        format!(
                            "nobody ever connected, idle_timeout is {} s, yet listen() only decided Timeout at t={} ms{}",
                            case.idle_timeout,
                            dt,
                            if injected_signal { " [signals kept interrupting select]" } else { "" }
                        ),
                    ));
                }
                // a timeout poll that returned after the stop flag was set must see the flag
                if let Some((sseq, st)) = o.stop_set {
                    if dseq > sseq {
                        v.push(viol(
                            "C15",
                            "timeout-instead-of-stop",
                            format!("stop flag set at t={} ms, a later poll (t={} ms) still ended in Timeout instead of Ok", st, dt),
                        ));
                    }
                }
            }
        }
        "Ok" => {
            probes.push(("listen_returned_ok", 1));
            if o.stop_set.is_none() {
                v.push(viol(
                    "C15",
                    "ok-without-stop",
                    "listen() returned Ok although the stop flag was never set".into(),
                ));
            }
        }
        other => {
            // Err(Io) after the environment closed the listening socket is the expected terminator
            if natural {
                v.push(viol("C15", "unexpected-result", format!("listen() returned {}", other)));
            }
        }
    }
    // T3: stop flag honoured
    if let Some((_sseq, st)) = o.stop_set {
        if text != "Ok" && text != "Err(Timeout)" {
            v.push(viol(
                "C15",
                "stop-ignored",
                format!(
                    "stop flag set at t={} ms; listen() only ended with {} after the environment shut the listener (t={} ms){}",
                    st,
                    text,
                    ret_t,
                    if injected_signal { " [a signal had interrupted select]" } else { "" }
                ),
            ));
        }
        // (an arbitrarily slow acceptor thread may sit between its flag test and its accept for any
        // amount of simulated time: the timing clause is only meaningful in fast-CPU mode)
        let mut enter_t: Option<u64> = None;
        for (_, t, e) in o.log.iter().filter(|_| fast) {
            match e {
                Ev::AcceptEnter => enter_t = Some(*t),
                Ev::AcceptReturn { c: Some(c) } => {
                    if let Some(et) = enter_t {
                        if et > st + 1000 {
                            v.push(viol(
                                "C15",
                                "accept-long-after-stop",
                                format!(
                                    "stop flag set at t={} ms, yet an accept started at t={} ms still took connection {}",
                                    st, et, c
                                ),
                            ));
                            break;
                        }
                    }
                }
                _ => {}
            }
        }
    } else if case.idle_timeout > 0 && text != "Err(Timeout)" {
        v.push(viol(
            "C15",
            "idle-timeout-ignored",
            format!(
                "idle_timeout={} s and every connection closed, but listen() only ended with {} after the environment shut the listener{}",
                case.idle_timeout,
                text,
                if injected_signal { " [a signal had interrupted select]" } else { "" }
            ),
        ));
    }
    // T2': an accepted connection may not be thrown away: if the peer had sent a complete request
    // and nothing was ever read from the connection, it was not "served to completion"
    for (i, c) in o.conns.iter().enumerate() {
        if let (Some((aseq, _)), Some(_)) = (c.accepted, c.srv_closed) {
            let had_request = c.sent_at_checkpoint > 0 && c.sent[..c.sent_at_checkpoint.min(c.sent.len())].contains(&0u8);
            if aseq < ret_seq && c.srv_first_io.is_none() && had_request && !c.faulted_by_script {
                for p in ["C15", "C14"] {
                    // (C14: an accepted connection is to be served - at once, or when a slot frees -
                    // never thrown away)
                    v.push(viol(
                        p,
                        "accepted-connection-dropped",
                        format!(
                            "connection {} was accepted (listen() returned {}), its request was waiting, but the server dropped it without ever reading from it",
                            i, text
                        ),
                    ));
                }
            }
        }
    }
    // T2: everything accepted was served to completion before the return
    for (i, c) in o.conns.iter().enumerate() {
        if let Some((aseq, _)) = c.accepted {
            if aseq < ret_seq {
                match c.srv_closed {
                    Some((cs, _)) if cs < ret_seq => {}
                    _ => v.push(viol(
                        "C15",
                        "returned-before-drained",
                        format!("listen() returned ({}) while accepted connection {} was still open on the server side", text, i),
                    )),
                }
            }
        }
    }
    // T4: promptness (fast-CPU mode: draining takes no simulated time)
    if fast && natural {
        let all_served = o
            .conns
            .iter()
            .filter(|c| c.accepted.is_some())
            .filter_map(|c| c.srv_closed.map(|x| x.1))
            .max()
            .unwrap_or(0);
        let base = match text {
            "Ok" => o.stop_set.map(|x| x.1 + 100),
            "Err(Timeout)" => decision.map(|x| x.1),
            _ => None,
        };
        if let Some(b) = base {
            let due = b.max(all_served);
            if ret_t > due + 100 {
                v.push(viol(
                    "C15",
                    "not-prompt",
                    format!("listen() returned {} at t={} ms; it could have at t={} ms", text, ret_t, due),
                ));
            }
        }
    }
}

fn l_faults(c: &NetCounters) -> Vec<(&'static str, u64)> {
    vec![
        ("server_short_read", c.srv_short_reads),
        ("server_read_eintr", c.srv_read_eintr),
        ("server_short_write", c.srv_short_writes),
        ("server_write_eintr", c.srv_write_eintr),
        ("server_write_blocked_on_full_window", c.srv_write_blocked),
        ("server_write_epipe_or_reset", c.srv_write_epipe),
        ("server_read_reset", c.srv_read_reset),
        ("select_eintr", c.select_eintr),
        ("clock_jump_while_threads_runnable", c.clock_jumps_while_busy),
    ]
}

pub fn eval_l(case: &LCase) -> RunResult {
    eval_l_obs(case).0
}

/// C02 on the socket path, differentially: the case's single healthy connection is played as scripted
/// (cut into segments, with waits and server-side short reads) and once more with the whole stream in
/// one segment; the reply bytes the client receives must be the same.
pub fn eval_ldiff(case: &LCase) -> RunResult {
    let (mut r, o) = eval_l_obs(case);
    let mut one = case.clone();
    // (exactly the bytes the script sent)
    let len = o.conns.first().map_or(0, |c| c.sent.len());
    one.steps = vec![Step::Connect(0), Step::Send(0, len), Step::Quiesce];
    one.conns[0].srv_read_plan = vec![];
    let (end2, _, o2) = run_l(&one);
    if matches!(end2, SimEnd::Completed) && o.conns.len() == 1 && o2.conns.len() == 1 && r.violations.iter().all(|v| v.clause != "panic" && v.clause != "livelock" && v.clause != "deadlock") {
        let (a, b) = (&o.conns[0].rx, &o2.conns[0].rx);
        // (compared in the canonical form that does not depend on HashMap iteration order in GetInfo)
        let canon = |w: &[u8]| {
            let mut f = Fnv::new();
            canon_wire_hash(&mut f, w);
            f.0
        };
        if canon(a) != canon(b) {
            let (fa, _) = split_nul(a);
            let (fb, _) = split_nul(b);
            r.violations.push(viol(
                "C02",
                "diff-replies",
                format!(
                    "reply bytes on a socket depend on segmentation: steps {:?} give {} frames ({} bytes), the whole stream in one segment gives {} frames ({} bytes)",
                    &case.steps[..case.steps.len().min(16)],
                    fa.len(),
                    a.len(),
                    fb.len(),
                    b.len()
                ),
            ));
        }
    } else if !matches!(end2, SimEnd::Completed) {
        r.violations.push(viol("C02", "diff-replies", format!("the one-segment run did not complete: {:?}", match end2 { SimEnd::Panic(t) => t, SimEnd::Deadlock(t) => t, _ => "step bound".to_string() })));
    }
    r
}

pub fn eval_l_obs(case: &LCase) -> (RunResult, LObs) {
    let (end, stats, o) = run_l(case);
    let vd = judge_l(case, &end, &o);
    let mut violations = vd.violations;
    // identical clause reported for several connections: keep the first of each (prop, clause)
    let mut seen: Vec<(&'static str, String)> = Vec::new();
    violations.retain(|x| {
        let k = (x.prop, x.clause.clone());
        if seen.contains(&k) {
            false
        } else {
            seen.push(k);
            true
        }
    });
    let mut sig = Fnv::new();
    let mut nosched = case.clone();
    nosched.sched = SchedCfg::uniform(0);
    sig.str(&serde_json::to_string(&nosched).unwrap());
    sig.u64(stats.switch_hash);
    let mut lh = Fnv::new();
    lh.u64(o.log_hash);
    for c in &o.conns {
        canon_wire_hash(&mut lh, &c.rx);
    }
    lh.str(&format!("{:?}", o.listen_result));
    let mut probes = vd.probes;
    probes.push(("select_timeouts", o.cnt.select_timeouts));
    probes.push(("acceptor_blocked_in_accept", o.cnt.accept_blocked));
    probes.push(("environment_had_to_close_listener", o.listener_closed_by_env as u64));
    probes.push(("emergency_shutdown", o.emergency as u64));
    let concurrent = {
        // two connections in service at the same time?
        let mut k = 0;
        for a in &o.conns {
            for b in &o.conns {
                if let (Some(x), Some(y), Some(xe)) = (a.accepted, b.accepted, a.srv_closed) {
                    if x.0 < y.0 && y.0 < xe.0 {
                        k += 1;
                    }
                }
            }
        }
        k
    };
    probes.push(("two_connections_in_service_at_once", (concurrent > 0) as u64));
    let rr = RunResult {
        violations,
        sig: sig.0,
        nontrivial: stats.switches >= 6,
        faults: l_faults(&o.cnt),
        probes,
        sim_ms: o.end_time,
        steps: stats.steps,
        log_hash: lh.0,
        inconclusive: vd.inconclusive,
        sample: Some(json!({
            "scenario": "L",
            "listen": {"initial": case.initial, "max": case.max, "idle_timeout_s": case.idle_timeout, "stop_flag": case.stop_flag, "slow_clock_pct": case.slow_clock},
            "connections": case.conns.iter().zip(o.conns.iter()).map(|(c, co)| json!({
                "peer": format!("{:?}", c.peer),
                "sent": String::from_utf8_lossy(&co.sent[..co.sent.len().min(200)]),
                "received": String::from_utf8_lossy(&co.rx[..co.rx.len().min(200)]),
                "server_read_plan": c.srv_read_plan.iter().take(8).collect::<Vec<_>>(),
            })).collect::<Vec<_>>(),
            "steps": format!("{:?}", &case.steps[..case.steps.len().min(24)]),
            "sched_mode": format!("{:?}", case.sched.mode),
            "scheduler_steps": stats.steps,
            "context_switches": stats.switches,
            "tasks": stats.tasks,
            "simulated_ms": o.end_time,
            "listen_result": o.listen_result.as_ref().map(|x| x.2.clone()),
        })),
    };
    (rr, o)
}

// ---------------------------------------------------------------------------------------------
// shrinking and schedule pinning

pub fn shrinks(c: &LCase) -> Vec<LCase> {
    let mut v = Vec::new();
    // drop a whole connection (and its steps)
    if c.conns.len() > 1 {
        for d in 0..c.conns.len() {
            let mut n = c.clone();
            n.conns.remove(d);
            n.steps = c
                .steps
                .iter()
                .filter_map(|s| {
                    let fix = |i: usize| if i > d { Some(i - 1) } else if i == d { None } else { Some(i) };
                    Some(match s {
                        Step::Connect(i) => Step::Connect(fix(*i)?),
                        Step::Send(i, k) => Step::Send(fix(*i)?, *k),
                        Step::HalfClose(i) => Step::HalfClose(fix(*i)?),
                        Step::Close(i) => Step::Close(fix(*i)?),
                        Step::Reset(i) => Step::Reset(fix(*i)?),
                        o => o.clone(),
                    })
                })
                .collect();
            v.push(n);
        }
    }
    for i in 0..c.steps.len() {
        if matches!(c.steps[i], Step::Connect(_)) {
            continue;
        }
        let mut n = c.clone();
        n.steps.remove(i);
        v.push(n);
    }
    for (i, cn) in c.conns.iter().enumerate() {
        if !cn.srv_read_plan.is_empty() {
            let mut n = c.clone();
            n.conns[i].srv_read_plan.clear();
            v.push(n);
        }
        if !cn.srv_write_plan.is_empty() {
            let mut n = c.clone();
            n.conns[i].srv_write_plan.clear();
            v.push(n);
        }
        // drop one message from the stream
        let s = cn.stream.to_vec();
        let (msgs, tail) = split_nul(&s);
        if msgs.len() > 1 {
            for d in 0..msgs.len() {
                let mut ns = Vec::new();
                for (k, m) in msgs.iter().enumerate() {
                    if k != d {
                        ns.extend_from_slice(m);
                        ns.push(0);
                    }
                }
                ns.extend_from_slice(tail);
                let mut n = c.clone();
                n.conns[i].stream = Bytes::from(&ns);
                v.push(n);
            }
        }
    }
    if c.slow_clock > 0 {
        let mut n = c.clone();
        n.slow_clock = 0;
        v.push(n);
    }
    if !matches!(c.sched.mode, crate::sched::Mode::Uniform) && c.sched.replay.is_none() {
        let mut n = c.clone();
        n.sched.mode = crate::sched::Mode::Uniform;
        v.push(n);
    }
    v
}

pub fn pin_schedule(c: &LCase, prop: &str, clause: &str) -> LCase {
    let (_, stats, _) = run_l(c);
    let mut pinned = c.clone();
    pinned.sched.replay = Some(stats.choices.clone());
    let fails = |cand: &LCase| eval_l(cand).violations.iter().any(|v| v.prop == prop && v.clause == clause);
    if !fails(&pinned) {
        return c.clone();
    }
    let short = crate::sched::shrink_choices(
        &stats.choices,
        |ch| {
            let mut n = pinned.clone();
            n.sched.replay = Some(ch.to_vec());
            fails(&n)
        },
        40,
    );
    pinned.sched.replay = Some(short);
    pinned
}

// ---------------------------------------------------------------------------------------------
// exploration spaces

pub const REAL_L: [&str; 5] = [
    "varlink::listen (accept loop, idle-timeout / stop-flag logic, worker closure)",
    "varlink::server::ThreadPool and Worker",
    "varlink::Listener::accept (real timeout arithmetic, EINTR loop and FD_ISSET test around the select seam)",
    "VarlinkService::handle and everything below it, shared by all workers",
    "std BufReader / read_until / write_all retry loops over the simulated socket",
];
pub const STUB_L: [&str; 5] = [
    "kernel sockets (simulated byte pipes with windows, short reads/writes, EINTR, EOF, reset)",
    "select(2) (shim with the kernel's contract: ready / timeout / -1+EINTR, remaining time written back)",
    "Listener::new address parsing, bind and unlink (bypassed by the sim: address)",
    "std threads and sync primitives (shuttle coroutines; PlanScheduler decides every switch)",
    "the wall clock (simulated milliseconds moved only by the environment task)",
];

fn token_stream(cfg: &SvcCfg, kinds: &[crate::alphabet::Kind], conn: usize) -> Vec<u8> {
    crate::alphabet::stream_of(cfg, kinds, &format!("c{}", conn))
}

fn msg_bounds(stream: &[u8]) -> Vec<usize> {
    let (msgs, _) = split_nul(stream);
    let mut v = Vec::new();
    let mut pos = 0;
    for m in msgs {
        pos += m.len() + 1;
        v.push(pos);
    }
    v
}

/// send `stream` in batches of `depth` whole requests, waiting for quiescence between batches
fn batch_steps(conn: usize, stream: &[u8], depth: usize, wait: bool) -> Vec<Step> {
    let b = msg_bounds(stream);
    let mut steps = vec![Step::Connect(conn)];
    let mut last = 0usize;
    for (k, e) in b.iter().enumerate() {
        if (k + 1) % depth == 0 || k + 1 == b.len() {
            steps.push(Step::Send(conn, e - last));
            last = *e;
            if wait {
                steps.push(Step::Quiesce);
            }
        }
    }
    if last < stream.len() {
        steps.push(Step::Send(conn, stream.len() - last));
    }
    steps
}

fn cut_steps(conn: usize, stream_len: usize, cuts: &[usize], wait: &[bool]) -> Vec<Step> {
    let mut steps = vec![Step::Connect(conn)];
    let mut last = 0usize;
    let mut k = 0usize;
    for c in cuts.iter().chain(std::iter::once(&stream_len)) {
        if *c > last && *c <= stream_len {
            steps.push(Step::Send(conn, c - last));
            last = *c;
            if wait.get(k).copied().unwrap_or(true) {
                steps.push(Step::Quiesce);
            } else {
                steps.push(Step::Yield(1));
            }
            k += 1;
        }
    }
    steps
}

/// a client operation equivalent to a request kind of the alphabet
pub fn cop_of(cfg: &SvcCfg, k: crate::alphabet::Kind, token: &str) -> COp {
    let req = crate::alphabet::build(cfg, k, token);
    let mode = if req.get("oneway") == Some(&json!(true)) {
        2
    } else if req.get("more") == Some(&json!(true)) {
        1
    } else {
        0
    };
    COp {
        method: req["method"].as_str().unwrap_or("").to_string(),
        params: req.get("parameters").cloned().unwrap_or(Value::Null),
        mode,
    }
}

/// K2: a real client against the real server: every pattern of oneway() / call() / more() up to 6
/// operations (C04's client clause), plus random longer mixes
pub fn c04_k2_spaces(tier: Tier) -> Vec<Space> {
    use crate::alphabet::{Base, Flags, Kind};
    let cfg = SvcCfg::basic();
    let mut spaces = Vec::new();
    {
        let cfg = cfg.clone();
        let maxlen = if tier == Tier::Quick { 5u32 } else { 6 };
        let mut size = 0u64;
        for l in 1..=maxlen {
            size += 2u64.pow(l);
        }
        spaces.push(Space {
            name: "K2.oneway.patterns",
            size,
            exhaustive: false,
            gen: Box::new(move |mut idx, seed| {
                let mut rng = Rng::new(seed);
                let mut len = 1u32;
                loop {
                    if idx < 2u64.pow(len) {
                        break;
                    }
                    idx -= 2u64.pow(len);
                    len += 1;
                }
                let bases = [Base::Echo, Base::GetInfo, Base::UnknownIface, Base::PingOk, Base::Fail, Base::NoDot, Base::PingBadType];
                let ops: Vec<COp> = (0..len)
                    .map(|i| {
                        let oneway = idx >> i & 1 == 1;
                        let b = if oneway { *rng.pick(&bases) } else { *rng.pick(&bases[..6]) };
                        cop_of(&cfg, Kind(b, if oneway { Flags::ONEWAY } else { Flags::NONE }), &format!("k0-{}", i))
                    })
                    .collect();
                let mut lc = LCase::single(&cfg, LConn::healthy(&[]), vec![], SchedCfg::random(&mut rng, 1));
                lc.conns.clear();
                lc.clients = vec![RealClient { ops, cli_read_plan: vec![], srv_read_plan: vec![] }];
                Case::L(lc)
            }),
        });
    }
    {
        let n = if tier == Tier::Quick { 5_000 } else { 200_000 };
        spaces.push(Space {
            name: "K2.mixed.random",
            size: n,
            exhaustive: false,
            gen: Box::new(move |_idx, seed| {
                let mut rng = Rng::new(seed);
                let full = crate::alphabet::full();
                let nclients = rng.range(1, 3) as usize;
                let mut clients = Vec::new();
                for c in 0..nclients {
                    let ops: Vec<COp> = (0..rng.range(1, 8))
                        .map(|i| {
                            let k = if rng.chance(1, 3) { Kind(*rng.pick(crate::alphabet::ALL_BASES), Flags::ONEWAY) } else { *rng.pick(&full) };
                            cop_of(&cfg, k, &format!("k{}-{}", c, i))
                        })
                        .collect();
                    clients.push(RealClient {
                        ops,
                        cli_read_plan: if rng.chance(1, 2) { (0..rng.range(1, 30)).map(|_| rng.range(1, 60) as u16).collect() } else { vec![] },
                        srv_read_plan: if rng.chance(1, 2) { (0..rng.range(1, 30)).map(|_| rng.range(1, 60) as u16).collect() } else { vec![] },
                    });
                }
                let mut lc = LCase::single(&cfg, LConn::healthy(&[]), vec![], SchedCfg::random(&mut rng, 1));
                lc.conns.clear();
                // sometimes a raw peer beside the real clients
                if rng.chance(1, 3) {
                    let kinds: Vec<_> = (0..rng.range(1, 5)).map(|_| *rng.pick(&full)).collect();
                    let s = token_stream(&cfg, &kinds, 0);
                    lc.conns.push(LConn::healthy(&s));
                    lc.steps = vec![Step::Connect(0), Step::Send(0, s.len())];
                }
                lc.clients = clients;
                Case::L(lc)
            }),
        });
    }
    spaces
}

/// raw oneway-rich streams through the real listen loop (the worker's own error path may write too)
pub fn c04_l_spaces(tier: Tier) -> Vec<Space> {
    use crate::alphabet::{Flags, Kind};
    let cfg = SvcCfg::basic();
    let n = if tier == Tier::Quick { 4_000 } else { 150_000 };
    vec![Space {
        name: "L.oneway.random",
        size: n,
        exhaustive: false,
        gen: Box::new(move |_idx, seed| {
            let mut rng = Rng::new(seed);
            let full = crate::alphabet::full();
            let len = rng.range(1, 10) as usize;
            let kinds: Vec<Kind> = (0..len)
                .map(|_| {
                    if rng.chance(1, 2) {
                        Kind(*rng.pick(crate::alphabet::ALL_BASES), if rng.chance(1, 4) { Flags { more: Some(true), oneway: Some(true), upgrade: None } } else { Flags::ONEWAY })
                    } else {
                        *rng.pick(&full)
                    }
                })
                .collect();
            let mut s = token_stream(&cfg, &kinds, 0);
            let depth = rng.range(1, len as u64) as usize;
            let mut steps = batch_steps(0, &s, depth, rng.chance(1, 2));
            // now and then the peer's last words are a oneway request that lacks only its NUL, and then
            // it shuts down its write side (and keeps reading): an incomplete message is no request,
            // least of all one that is answered
            if rng.chance(1, 5) {
                let mut last = crate::alphabet::frame(&crate::alphabet::build(&cfg, Kind(*rng.pick(crate::alphabet::ALL_BASES), Flags::ONEWAY), "c0-last"));
                last.pop();
                let n = last.len();
                s.extend_from_slice(&last);
                steps.push(Step::Send(0, n));
                if rng.chance(1, 2) {
                    steps.push(Step::Quiesce);
                }
                steps.push(Step::HalfClose(0));
            }
            let mut conn = LConn::healthy(&s);
            if rng.chance(1, 3) {
                conn.srv_read_plan = (0..rng.range(1, 30)).map(|_| rng.range(1, 90) as u16).collect();
            }
            Case::L(LCase::single(&cfg, conn, steps, SchedCfg::random(&mut rng, 1)))
        }),
    }]
}

/// C05 on the socket path: a peer walks away from a `more` stream while `continues` replies are being
/// written to it (it never read; the write blocks, then fails); afterwards other connections make
/// plain calls on the same server
pub fn c05_l_spaces(tier: Tier) -> Vec<Space> {
    use crate::alphabet::{Flags, Kind};
    let cfg = SvcCfg::basic();
    let n = if tier == Tier::Quick { 1_500 } else { 50_000 };
    vec![Space {
        name: "L.more.abandoned-stream",
        size: n,
        exhaustive: false,
        gen: Box::new(move |_idx, seed| {
            let mut rng = Rng::new(seed);
            let a = cfg.scripted[0].clone();
            let mut conns = Vec::new();
            let mut steps = Vec::new();
            let quitters = rng.range(1, 2) as usize;
            for q in 0..quitters {
                let mut script = vec!["c1"];
                for _ in 0..rng.range(1, 6) {
                    script.push("r");
                }
                if rng.chance(1, 2) {
                    script.push("c0");
                    script.push("r");
                }
                let mut s = crate::alphabet::frame(&crate::alphabet::request(
                    &format!("{}.Script", a),
                    Some(json!({"token": format!("c{}-0", q), "script": script})),
                    Flags::MORE,
                ));
                if rng.chance(1, 3) {
                    s.extend(crate::alphabet::frame(&crate::alphabet::request(
                        "org.example.more.TestMore",
                        Some(json!({"n": rng.range(1, 5)})),
                        Flags::MORE,
                    )));
                }
                let mut c = LConn::healthy(&s);
                c.peer = Peer::StopReading;
                c.s2c_cap = *rng.pick(&[1usize, 20, 45, 70, 120]);
                steps.push(Step::Connect(q));
                steps.push(Step::Send(q, s.len()));
                steps.push(Step::Quiesce);
                steps.push(if rng.chance(1, 2) { Step::Reset(q) } else { Step::Close(q) });
                if rng.chance(1, 2) {
                    steps.push(Step::Quiesce);
                }
                conns.push(c);
            }
            let red = crate::alphabet::reduced();
            for k in 0..rng.range(1, 3) as usize {
                let i = quitters + k;
                let kinds: Vec<Kind> = (0..rng.range(1, 3))
                    .map(|_| if rng.chance(1, 2) { Kind(crate::alphabet::Base::Echo, Flags::NONE) } else { *rng.pick(&red) })
                    .collect();
                let s = token_stream(&cfg, &kinds, i);
                conns.push(LConn::healthy(&s));
                steps.push(Step::Connect(i));
                steps.push(Step::Send(i, s.len()));
                if rng.chance(1, 2) {
                    steps.push(Step::Quiesce);
                }
            }
            let mut lc = LCase::single(&cfg, conns[0].clone(), steps, SchedCfg::random(&mut rng, 1));
            lc.conns = conns;
            lc.initial = 1;
            lc.max = *rng.pick(&[1usize, 2, 4]);
            Case::L(lc)
        }),
    }]
}

/// a connection that carries oneway calls only is accepted while the pool is saturated, then the stop
/// flag is raised, then the connections in service end: the queued one is served during the drain and
/// still gets no reply bytes
pub fn c04_stop_spaces(tier: Tier) -> Vec<Space> {
    use crate::alphabet::{Flags, Kind};
    let cfg = SvcCfg::basic();
    let n = if tier == Tier::Quick { 600 } else { 20_000 };
    vec![Space {
        name: "L.oneway.queued-at-stop",
        size: n,
        exhaustive: false,
        gen: Box::new(move |_idx, seed| {
            let mut rng = Rng::new(seed);
            let max = rng.range(1, 2) as usize;
            let mut conns = Vec::new();
            let mut steps = Vec::new();
            for i in 0..max {
                let s = token_stream(&cfg, &[Kind(crate::alphabet::Base::Echo, Flags::NONE)], i);
                conns.push(LConn::healthy(&s));
                steps.push(Step::Connect(i));
                steps.push(Step::Send(i, s.len()));
            }
            steps.push(Step::Quiesce);
            let q = max;
            let kinds: Vec<Kind> = (0..rng.range(1, 3))
                .map(|_| Kind(*rng.pick(crate::alphabet::ALL_BASES), if rng.chance(1, 5) { Flags { more: Some(true), oneway: Some(true), upgrade: None } } else { Flags::ONEWAY }))
                .collect();
            let s = token_stream(&cfg, &kinds, q);
            conns.push(LConn::healthy(&s));
            steps.push(Step::Connect(q));
            steps.push(Step::Send(q, s.len()));
            if rng.chance(1, 2) {
                steps.push(Step::Quiesce);
            }
            steps.push(Step::SetStop);
            if rng.chance(2, 3) {
                steps.push(Step::Sleep(rng.range(50, 400)));
            }
            for i in 0..max {
                steps.push(Step::HalfClose(i));
            }
            let mut lc = LCase::single(&cfg, conns[0].clone(), steps, SchedCfg::random(&mut rng, 1));
            lc.conns = conns;
            lc.initial = 1;
            lc.max = max;
            lc.stop_flag = true;
            Case::L(lc)
        }),
    }]
}

/// one connection that moves more than a megabyte in total (many medium-sized requests)
pub fn megabyte_conn(cfg: &SvcCfg, rng: &mut Rng, idx: usize) -> LConn {
    let a = cfg.scripted[0].clone();
    let mut s = Vec::new();
    let mut i = 0;
    let total = rng.range(1_100_000, 1_600_000) as usize;
    while s.len() < total {
        let pad = rng.range(1000, 6000) as usize;
        s.extend(crate::alphabet::frame(&crate::alphabet::request(
            &format!("{}.Echo", a),
            Some(json!({"token": format!("c{}-{}", idx, i), "pad": "m".repeat(pad)})),
            crate::alphabet::Flags::NONE,
        )));
        i += 1;
    }
    LConn::healthy(&s)
}

pub fn c01_spaces(tier: Tier) -> Vec<Space> {
    let cfg = SvcCfg::basic();
    let alpha = crate::alphabet::reduced();
    let a = alpha.len() as u64;
    let maxlen: u32 = if tier == Tier::Quick { 2 } else { 3 };
    let mut size = 0u64;
    for len in 1..=maxlen {
        size += a.pow(len) * len as u64;
    }
    let seeds: u64 = if tier == Tier::Quick { 4 } else { 12 };
    let mut spaces = Vec::new();
    // the connection under test is not alone: 1..3 other connections are accepted right before or
    // after it (no pause in between) and stay open without saying anything; far below the worker limit
    {
        let (cfg, alpha) = (cfg.clone(), alpha.clone());
        let n = if tier == Tier::Quick { 2_000 } else { 60_000 };
        spaces.push(Space {
            name: "L.seq.beside-open-connections",
            size: n,
            exhaustive: false,
            gen: Box::new(move |_idx, seed| {
                let mut rng = Rng::new(seed);
                let others = rng.range(1, 3) as usize;
                let talker_at = rng.usize(others + 1);
                let kinds: Vec<_> = (0..rng.range(1, 5)).map(|_| *rng.pick(&alpha)).collect();
                let mut conns = Vec::new();
                let mut steps = Vec::new();
                let mut talker = 0;
                // in a quarter of the runs the server has an idle timeout and two or more idle periods
                // pass, the silent connections open, before the talker arrives
                let timed = rng.chance(1, 4);
                let talker_at = if timed { others } else { talker_at };
                for i in 0..=others {
                    if timed && i == talker_at {
                        steps.push(Step::Quiesce);
                        steps.push(Step::Sleep(*rng.pick(&[2100u64, 2600, 3400])));
                    }
                    if i == talker_at {
                        talker = i;
                        conns.push(LConn::healthy(&token_stream(&cfg, &kinds, i)));
                    } else {
                        conns.push(LConn::healthy(&[]));
                    }
                    steps.push(Step::Connect(i));
                    if rng.chance(1, 4) {
                        steps.push(Step::Yield(rng.range(1, 3) as u8));
                    }
                }
                let len = conns[talker].stream.to_vec().len();
                steps.push(Step::Send(talker, len));
                let mut lc = LCase::single(&cfg, conns[0].clone(), steps, SchedCfg::random(&mut rng, 1));
                lc.conns = conns;
                lc.initial = rng.range(1, 2) as usize;
                lc.max = *rng.pick(&[8usize, 16, 100]);
                if timed {
                    lc.idle_timeout = 1;
                }
                Case::L(lc)
            }),
        });
    }
    {
        let (cfg, alpha) = (cfg.clone(), alpha.clone());
        spaces.push(Space {
            name: "L.seq.reduced",
            size: size * seeds,
            exhaustive: false,
            gen: Box::new(move |idx, seed| {
                let mut rng = Rng::new(seed);
                let mut i = idx / seeds;
                let mut len = 1u32;
                loop {
                    let block = a.pow(len) * len as u64;
                    if i < block {
                        break;
                    }
                    i -= block;
                    len += 1;
                }
                let depth = (i % len as u64) as usize + 1;
                let mut code = i / len as u64;
                let mut kinds = Vec::new();
                for _ in 0..len {
                    kinds.push(alpha[(code % a) as usize]);
                    code /= a;
                }
                let s = token_stream(&cfg, &kinds, 0);
                let steps = batch_steps(0, &s, depth, true);
                Case::L(LCase::single(&cfg, LConn::healthy(&s), steps, SchedCfg::random(&mut rng, 1)))
            }),
        });
    }
    {
        let n = if tier == Tier::Quick { 6_000 } else { 200_000 };
        let full = crate::alphabet::full();
        spaces.push(Space {
            name: "L.seq.random",
            size: n,
            exhaustive: false,
            gen: Box::new(move |_idx, seed| {
                let mut rng = Rng::new(seed);
                let len = rng.range(3, 16) as usize;
                let kinds: Vec<_> = (0..len).map(|_| *rng.pick(&full)).collect();
                let s = token_stream(&cfg, &kinds, 0);
                let depth = rng.range(1, len as u64) as usize;
                let steps = batch_steps(0, &s, depth, rng.chance(2, 3));
                let mut conn = LConn::healthy(&s);
                if rng.chance(1, 2) {
                    conn.srv_read_plan = (0..rng.range(1, 30)).map(|_| rng.range(1, 90) as u16).collect();
                }
                if rng.chance(1, 3) {
                    conn.srv_write_plan = (0..rng.range(1, 30)).map(|_| rng.range(1, 60) as u16).collect();
                }
                let mut c = LCase::single(&cfg, conn, steps, SchedCfg::random(&mut rng, 1));
                c.initial = rng.range(1, 2) as usize;
                Case::L(c)
            }),
        });
    }
    {
        let cfg = SvcCfg::basic();
        let n = if tier == Tier::Quick { 24 } else { 600 };
        spaces.push(Space {
            name: "L.seq.megabyte",
            size: n,
            exhaustive: false,
            gen: Box::new(move |_idx, seed| {
                let mut rng = Rng::new(seed);
                let conn = megabyte_conn(&cfg, &mut rng, 0);
                let len = conn.stream.to_vec().len();
                // delivered in a handful of large segments, the client reading along
                let mut steps = vec![Step::Connect(0)];
                let mut left = len;
                while left > 0 {
                    let k = (rng.range(50_000, 400_000) as usize).min(left);
                    steps.push(Step::Send(0, k));
                    steps.push(Step::Quiesce);
                    left -= k;
                }
                Case::L(LCase::single(&cfg, conn, steps, SchedCfg::random(&mut rng, 1)))
            }),
        });
    }
    spaces
}

pub fn c02_spaces(tier: Tier) -> Vec<Space> {
    let mut streams = crate::props::c02_streams(Tier::Quick);
    // keep the corpus small on the socket path: the mixed / partial / upgrade streams and a few pairs
    let keep: Vec<(SvcCfg, Vec<u8>)> = streams
        .drain(..)
        .enumerate()
        .filter(|(i, (c, s))| c.upgrade_mode != SvcCfg::basic().upgrade_mode || *i % 7 == 0 || s.len() > 300 || String::from_utf8_lossy(s).contains("Upgrade"))
        .map(|(_, x)| x)
        .collect();
    let mut spaces = Vec::new();
    // every single cut point, delivered with and without waiting for quiescence at the cut
    {
        let st: Vec<(SvcCfg, Vec<u8>)> = if tier == Tier::Quick {
            keep.iter().filter(|(_, s)| s.len() <= 400).take(14).cloned().collect()
        } else {
            keep.clone()
        };
        let mut offsets = vec![0u64];
        for (_, s) in &st {
            offsets.push(offsets.last().unwrap() + (s.len() as u64).saturating_sub(1) * 2);
        }
        let total = *offsets.last().unwrap();
        spaces.push(Space {
            name: "L.cut.single",
            size: total,
            exhaustive: false,
            gen: Box::new(move |idx, seed| {
                let mut rng = Rng::new(seed);
                let k = offsets.partition_point(|o| *o <= idx) - 1;
                let (cfg, s) = &st[k];
                let local = idx - offsets[k];
                let cut = (local / 2) as usize + 1;
                let wait = local % 2 == 0;
                let steps = cut_steps(0, s.len(), &[cut], &[wait, true]);
                Case::L(LCase::single(cfg, LConn::healthy(s), steps, SchedCfg::random(&mut rng, 1)))
            }),
        });
    }
    // seeded random k-cuts, random waits, server-side short reads
    {
        let mut st = keep.clone();
        if tier == Tier::Thorough {
            st.extend(crate::props::c02_big_streams());
        }
        let n = if tier == Tier::Quick { 8_000 } else { 300_000 };
        spaces.push(Space {
            name: "L.cut.random",
            size: n,
            exhaustive: false,
            gen: Box::new(move |_idx, seed| {
                let mut rng = Rng::new(seed);
                let (cfg, s) = &st[rng.usize(st.len())];
                let k = rng.range(1, 10) as usize;
                let mut cuts: Vec<usize> = (0..k).map(|_| rng.usize(s.len().max(1))).collect();
                cuts.sort();
                cuts.dedup();
                cuts.retain(|x| *x > 0);
                let wait: Vec<bool> = (0..cuts.len() + 1).map(|_| rng.chance(1, 2)).collect();
                let steps = cut_steps(0, s.len(), &cuts, &wait);
                let mut conn = LConn::healthy(s);
                if rng.chance(1, 2) {
                    // short reads, and now and then a signal: read() returns EINTR
                    let eintr = rng.chance(1, 3);
                    conn.srv_read_plan = (0..rng.range(1, 40))
                        .map(|_| if eintr && rng.chance(1, 5) { 0 } else { rng.range(1, 50) as u16 })
                        .collect();
                }
                Case::L(LCase::single(cfg, conn, steps, SchedCfg::random(&mut rng, 1)))
            }),
        });
    }
    // upgraded connections that carry 9..60 KB through a handler that returns in mid-stream (V3 per
    // batch, V4 on a partial frame): whole, in a few big segments, with and without short reads
    {
        let n = if tier == Tier::Quick { 400 } else { 20_000 };
        spaces.push(Space {
            name: "L.upgrade.bulk",
            size: n,
            exhaustive: false,
            gen: Box::new(move |_idx, seed| {
                let mut rng = Rng::new(seed);
                let (cfg, s) = crate::props::c02_bulk_upgraded_streams(&mut rng, 2).remove(rng.usize(2));
                let k = rng.range(0, 5) as usize;
                let mut cuts: Vec<usize> = (0..k).map(|_| rng.usize(s.len())).collect();
                cuts.sort();
                cuts.dedup();
                cuts.retain(|x| *x > 0);
                let wait: Vec<bool> = (0..cuts.len() + 1).map(|_| rng.chance(1, 2)).collect();
                let steps = cut_steps(0, s.len(), &cuts, &wait);
                let mut conn = LConn::healthy(&s);
                if rng.chance(1, 3) {
                    conn.srv_read_plan = (0..rng.range(1, 40)).map(|_| rng.range(1, 9000) as u16).collect();
                }
                Case::L(LCase::single(&cfg, conn, steps, SchedCfg::random(&mut rng, 1)))
            }),
        });
    }
    // the stop flag is raised while an upgraded connection is in mid-conversation: it only stops new
    // connections from being accepted; what the peer goes on sending (with pauses) still reaches the handler
    {
        let n = if tier == Tier::Quick { 600 } else { 20_000 };
        spaces.push(Space {
            name: "L.upgrade.across-stop",
            size: n,
            exhaustive: false,
            gen: Box::new(move |_idx, seed| {
                let mut rng = Rng::new(seed);
                let mut cfg = SvcCfg::basic();
                cfg.upgrade_mode = *rng.pick(&[2u8, 3, 3, 4]);
                let mut s = crate::alphabet::frame(&crate::alphabet::upgrade_request(&cfg, rng.chance(1, 2), "up"));
                let mut cuts = vec![s.len()];
                let records = rng.range(2, 6);
                for r in 0..records {
                    match cfg.upgrade_mode {
                        4 => {
                            let len = rng.range(0, 40) as usize;
                            s.push(len as u8);
                            s.extend(std::iter::repeat(b'a' + r as u8).take(len));
                        }
                        3 => s.extend_from_slice(format!("rec-{}\nEnd\n", r).as_bytes()),
                        _ => s.extend_from_slice(format!("rec-{}\n", r).as_bytes()),
                    }
                    cuts.push(s.len());
                }
                cuts.pop();
                // every record in its own segment, a wait after each; the flag goes up after the k-th
                let stop_after = rng.range(1, cuts.len() as u64) as usize;
                let mut steps = vec![Step::Connect(0)];
                let mut last = 0usize;
                for (k, c) in cuts.iter().chain(std::iter::once(&s.len())).enumerate() {
                    steps.push(Step::Send(0, c - last));
                    last = *c;
                    steps.push(Step::Quiesce);
                    if k + 1 == stop_after {
                        steps.push(Step::SetStop);
                        steps.push(Step::Sleep(rng.range(100, 400)));
                    }
                }
                let mut lc = LCase::single(&cfg, LConn::healthy(&s), steps, SchedCfg::random(&mut rng, 1));
                lc.stop_flag = true;
                Case::L(lc)
            }),
        });
    }
    // a signal interrupts a read of an upgraded handler that passes I/O errors on (V5) right after it
    // has taken the bytes that came with the upgrade request: the connection may end, but what the
    // handler processed stays a prefix of the stream (nothing twice)
    {
        let n = if tier == Tier::Quick { 1_500 } else { 50_000 };
        spaces.push(Space {
            name: "L.upgrade.interrupted",
            size: n,
            exhaustive: false,
            gen: Box::new(move |_idx, seed| {
                let mut rng = Rng::new(seed);
                let mut cfg = SvcCfg::basic();
                cfg.upgrade_mode = 5;
                let mut s = crate::alphabet::frame(&crate::alphabet::upgrade_request(&cfg, rng.chance(1, 2), "up"));
                let head = s.len();
                let total = rng.range(20, 700) as usize;
                let mut i = 0;
                let mut payload = Vec::new();
                while payload.len() < total {
                    payload.extend_from_slice(format!("L{}-{}\n", i, "y".repeat(rng.range(0, 30) as usize)).as_bytes());
                    i += 1;
                }
                s.extend_from_slice(&payload);
                // the request and the first part of the payload in one segment, the rest later
                let first = head + rng.range(1, payload.len() as u64) as usize;
                let mut cuts = vec![first];
                if rng.chance(1, 2) && first + 1 < s.len() {
                    cuts.push(rng.range(first as u64 + 1, s.len() as u64 - 1) as usize);
                }
                let wait: Vec<bool> = (0..cuts.len() + 1).map(|_| rng.chance(2, 3)).collect();
                let steps = cut_steps(0, s.len(), &cuts, &wait);
                let mut conn = LConn::healthy(&s);
                // reads: a few that take what is there, then an interrupted one, then more of the same
                let mut plan: Vec<u16> = Vec::new();
                for _ in 0..rng.range(1, 3) {
                    plan.push(rng.range(200, 9000) as u16);
                }
                plan.push(0);
                for _ in 0..rng.range(0, 6) {
                    plan.push(if rng.chance(1, 4) { 0 } else { rng.range(1, 9000) as u16 });
                }
                conn.srv_read_plan = plan;
                Case::L(LCase::single(&cfg, conn, steps, SchedCfg::random(&mut rng, 1)))
            }),
        });
    }
    // differential on the socket path: a stream with one request the service refuses to go on after
    // (not JSON, or ill-typed for the generated code) in the middle, cut at random vs in one segment
    {
        let st: Vec<(SvcCfg, Vec<u8>)> = keep.iter().filter(|(_, s)| s.len() <= 1500 && !String::from_utf8_lossy(s).contains("Upgrade")).cloned().collect();
        let n = if tier == Tier::Quick { 3_000 } else { 100_000 };
        spaces.push(Space {
            name: "L.diff.refused-request",
            size: n,
            exhaustive: false,
            gen: Box::new(move |_idx, seed| {
                let mut rng = Rng::new(seed);
                let (cfg, base) = &st[rng.usize(st.len())];
                // message boundaries of the base stream
                let mut bounds = vec![0usize];
                for (i, b) in base.iter().enumerate() {
                    if *b == 0 {
                        bounds.push(i + 1);
                    }
                }
                let at = *rng.pick(&bounds);
                let bad: &[u8] = match rng.below(5) {
                    0 => b"{\"method\":42}\0",
                    1 => b"{\"method\":\"org.example.ping.Ping\",\"parameters\":{\"ping\":12}}\0",
                    2 => b"not json at all\0",
                    3 => b"{\"method\":\"org.varlink.service.GetInfo\",\"more\":\"yes\"}\0",
                    _ => b"\0",
                };
                let mut s = base[..at.min(base.len())].to_vec();
                if rng.chance(5, 6) {
                    s.extend_from_slice(bad);
                }
                s.extend_from_slice(&base[at.min(base.len())..]);
                let k = rng.range(1, 8) as usize;
                let mut cuts: Vec<usize> = (0..k)
                    .map(|_| if rng.chance(1, 2) { *rng.pick(&bounds) + if at <= s.len() { 0 } else { 0 } } else { rng.usize(s.len().max(1)) })
                    .collect();
                cuts.sort();
                cuts.dedup();
                cuts.retain(|x| *x > 0 && *x < s.len());
                let wait: Vec<bool> = (0..cuts.len() + 1).map(|_| rng.chance(2, 3)).collect();
                let steps = cut_steps(0, s.len(), &cuts, &wait);
                let mut conn = LConn::healthy(&s);
                if rng.chance(1, 3) {
                    conn.srv_read_plan = (0..rng.range(1, 30)).map(|_| rng.range(1, 60) as u16).collect();
                }
                Case::LDiff(LCase::single(cfg, conn, steps, SchedCfg::random(&mut rng, 1)))
            }),
        });
    }
    spaces
}

pub fn c03_spaces(tier: Tier) -> Vec<Space> {
    // several workers share the one service object while routing among confusable names
    let n = if tier == Tier::Quick { 2_000 } else { 60_000 };
    vec![Space {
        name: "L.route.shared-service",
        size: n,
        exhaustive: false,
        gen: Box::new(move |_idx, seed| {
            let mut rng = Rng::new(seed);
            let mut cfg = SvcCfg::basic();
            let mut names: Vec<String> = Vec::new();
            for _ in 0..rng.range(1, 4) {
                let nme = rng.pick(crate::props::NAME_POOL).to_string();
                if !names.contains(&nme) {
                    names.push(nme);
                }
            }
            cfg.scripted = names.clone();
            let mut conns = Vec::new();
            let mut steps = Vec::new();
            // in a third of the runs a peer that does not read its replies is served first and then
            // resets its connection: a reply write fails on the server in the middle of the service's life
            let hostile = rng.chance(1, 3) as usize;
            if hostile == 1 {
                let mut s = Vec::new();
                for i in 0..rng.range(1, 3) {
                    let base = rng.pick(crate::props::NAME_POOL).to_string();
                    let m = if rng.chance(1, 2) { format!("{}.Echo", base) } else { "org.varlink.service.GetInfo".to_string() };
                    s.extend(crate::alphabet::frame(&crate::alphabet::request(
                        &m,
                        Some(json!({"token": format!("c0-{}", i)})),
                        crate::alphabet::Flags::NONE,
                    )));
                }
                let mut h = LConn::healthy(&s);
                h.peer = Peer::StopReading;
                h.s2c_cap = *rng.pick(&[1usize, 16, 40]);
                steps.push(Step::Connect(0));
                steps.push(Step::Send(0, s.len()));
                steps.push(Step::Quiesce);
                steps.push(Step::Reset(0));
                if rng.chance(1, 2) {
                    steps.push(Step::Quiesce);
                }
                conns.push(h);
            }
            let nconn = hostile + rng.range(1, 3) as usize;
            for c in hostile..nconn {
                let mut s = Vec::new();
                // now and then a long pipeline: 40..120 calls in one segment
                let ncalls = if rng.chance(1, 8) { rng.range(40, 120) } else { rng.range(1, 5) };
                for i in 0..ncalls {
                    let base = rng.pick(crate::props::NAME_POOL).to_string();
                    if rng.chance(1, 5) {
                        // descriptions asked for from several connections at the same time
                        s.extend(crate::alphabet::frame(&crate::alphabet::request(
                            "org.varlink.service.GetInterfaceDescription",
                            Some(json!({ "interface": base })),
                            crate::alphabet::Flags::NONE,
                        )));
                        continue;
                    }
                    let m = match rng.below(5) {
                        0 => format!("{}.Echo", base),
                        1 => format!("{}.Nope", base),
                        2 => base.clone(),
                        3 => format!("{}x.Echo", base),
                        _ => format!("{}.Fail", base),
                    };
                    s.extend(crate::alphabet::frame(&crate::alphabet::request(
                        &m,
                        Some(json!({"token": format!("c{}-{}", c, i)})),
                        crate::alphabet::Flags::NONE,
                    )));
                }
                s.extend(crate::alphabet::frame(&crate::alphabet::request(
                    "org.varlink.service.GetInfo",
                    None,
                    crate::alphabet::Flags::NONE,
                )));
                steps.push(Step::Connect(c));
                steps.push(Step::Send(c, s.len()));
                conns.push(LConn::healthy(&s));
            }
            let mut lc = LCase::single(&cfg, conns[0].clone(), steps, SchedCfg::random(&mut rng, 1));
            lc.conns = conns;
            Case::L(lc)
        }),
    }]
}

pub fn c06_spaces(tier: Tier) -> Vec<Space> {
    // a faulty connection beside a healthy one, and a healthy one afterwards
    let cfg = SvcCfg::basic();
    let n = if tier == Tier::Quick { 8_000 } else { 300_000 };
    let victims = crate::props::c06_victims_pub(&cfg);
    vec![Space {
        name: "L.malformed.neighbours",
        size: n,
        exhaustive: false,
        gen: Box::new(move |_idx, seed| {
            let mut rng = Rng::new(seed);
            let mut victim = rng.pick(&victims).clone();
            // one mutation of the victim
            let pos = rng.usize(victim.len() - 1);
            match rng.below(8) {
                0 => victim[pos] ^= 1 << rng.below(7),
                1 => {
                    victim.remove(pos);
                }
                2 => victim.insert(pos, 0),
                3 => victim.insert(pos, 0xFF),
                4 => victim[pos] = b'"',
                5 => victim.truncate(pos + 1),
                6 => {
                    victim = format!("{}\0", crate::props::nested(*rng.pick(&[10usize, 127, 128, 129, 300, 2000]), rng.chance(1, 2))).into_bytes();
                }
                _ => {
                    let len = rng.range(1, 60) as usize;
                    victim = (0..len).map(|_| rng.below(256) as u8).collect();
                    victim.push(0);
                }
            }
            let mut bad = token_stream(&cfg, &[crate::alphabet::Kind(crate::alphabet::Base::Echo, crate::alphabet::Flags::NONE)], 0);
            bad.extend_from_slice(&victim);
            if rng.chance(1, 12) {
                // the peer's last message is a well-formed request that lacks only its NUL: the stream
                // ends there (half-close at the release), the message is incomplete and gets no reply
                bad = token_stream(&cfg, &[crate::alphabet::Kind(crate::alphabet::Base::Echo, crate::alphabet::Flags::NONE), crate::alphabet::Kind(crate::alphabet::Base::GetInfo, crate::alphabet::Flags::NONE)], 0);
                bad.pop();
            } else if rng.chance(1, 4) {
                // the peer goes away in the middle of a message: the stream ends without a NUL
                while bad.last() == Some(&0) {
                    bad.pop();
                }
                let keep = bad.len() - rng.usize(victim.len().min(bad.len()) / 2 + 1);
                bad.truncate(keep.max(1));
                if bad.last() == Some(&0) {
                    bad.push(b'{');
                }
            } else {
                bad.extend(token_stream(&cfg, &[crate::alphabet::Kind(crate::alphabet::Base::GetInfo, crate::alphabet::Flags::NONE)], 0));
            }
            let red = crate::alphabet::reduced();
            let k1: Vec<_> = (0..rng.range(1, 4)).map(|_| *rng.pick(&red)).collect();
            let k2: Vec<_> = (0..rng.range(1, 3)).map(|_| *rng.pick(&red)).collect();
            let good1 = token_stream(&cfg, &k1, 1);
            let good2 = token_stream(&cfg, &k2, 2);
            let hostile = rng.chance(1, 6);
            if hostile {
                // well-formed but hostile: pipelines requests, never reads a reply, then just goes away
                let k: Vec<_> = (0..rng.range(2, 12)).map(|_| crate::alphabet::Kind(crate::alphabet::Base::GetInfo, crate::alphabet::Flags::NONE)).collect();
                bad = token_stream(&cfg, &k, 0);
            }
            let mut steps = vec![Step::Connect(0), Step::Connect(1)];
            // interleave the two senders
            let cut_b = rng.range(1, bad.len() as u64) as usize;
            let cut_g = rng.range(1, good1.len() as u64) as usize;
            let mut order = vec![Step::Send(0, cut_b), Step::Send(1, cut_g), Step::Send(0, bad.len()), Step::Send(1, good1.len())];
            if rng.chance(1, 2) {
                order.swap(0, 1);
            }
            if rng.chance(1, 2) {
                order.insert(2, Step::Quiesce);
            }
            steps.extend(order);
            steps.push(Step::Quiesce);
            if hostile {
                steps.push(if rng.chance(1, 2) { Step::Close(0) } else { Step::Reset(0) });
                steps.push(Step::Quiesce);
            }
            // in a fifth of the runs the server has an idle timeout, and an idle period or two pass - the
            // faulty connection gone, the healthy one still open - before the later connection arrives
            let timed = rng.chance(1, 5);
            if timed {
                steps.push(Step::Quiesce);
                steps.push(Step::Sleep(*rng.pick(&[1200u64, 2100, 2700])));
            }
            // the later connection
            steps.push(Step::Connect(2));
            steps.push(Step::Send(2, good2.len()));
            let mut lc = LCase::single(&cfg, LConn::healthy(&bad), steps, SchedCfg::random(&mut rng, 1));
            if timed {
                lc.idle_timeout = 1;
            }
            lc.conns = vec![LConn::healthy(&bad), LConn::healthy(&good1), LConn::healthy(&good2)];
            if rng.chance(1, 60) {
                // a long-lived healthy neighbour that moves more than a megabyte
                lc.conns[1] = megabyte_conn(&cfg, &mut rng, 1);
                for st in lc.steps.iter_mut() {
                    if let Step::Send(1, k) = st {
                        *k = 2_000_000;
                    }
                }
            }
            if hostile {
                lc.conns[0].peer = Peer::StopReading;
                lc.conns[0].s2c_cap = rng.range(1, 200) as usize;
            }
            lc.initial = rng.range(1, 2) as usize;
            Case::L(lc)
        }),
    },
    // a long history of faulty peers on one server: ~75 connections that each send one complete
    // malformed message of graded size (40 x 1 MiB, then five each of 256 KiB .. 64 bytes: about 42 MiB
    // in total, so that whatever is kept per malformed message adds up), with healthy connections in
    // between and at the end, which must be served like on a fresh server
    Space {
        name: "L.malformed.flood",
        size: if tier == Tier::Quick { 2 } else { 24 },
        exhaustive: false,
        gen: Box::new(move |idx, seed| {
            let mut rng = Rng::new(seed);
            let cfg = SvcCfg::basic();
            let mut sizes: Vec<usize> = vec![1 << 20; 40];
            for sz in [256 << 10, 64 << 10, 16 << 10, 4 << 10, 1 << 10, 256, 64] {
                for _ in 0..5 {
                    sizes.push(sz);
                }
            }
            let mut conns = Vec::new();
            let mut steps = Vec::new();
            let red = crate::alphabet::reduced();
            let mut probe = |conns: &mut Vec<LConn>, steps: &mut Vec<Step>, rng: &mut Rng| {
                let i = conns.len();
                let kinds: Vec<_> = (0..rng.range(1, 3)).map(|_| *rng.pick(&red)).collect();
                let s = token_stream(&cfg, &kinds, i);
                conns.push(LConn::healthy(&s));
                steps.push(Step::Connect(i));
                steps.push(Step::Send(i, s.len()));
                steps.push(Step::Quiesce);
                steps.push(Step::HalfClose(i));
            };
            for (k, sz) in sizes.iter().enumerate() {
                let i = conns.len();
                let head: &[u8] = match (idx + k as u64) % 3 {
                    0 => b"{\"method\":42,\"pad\":\"",
                    1 => b"{\"method\":\"org.example.ping.Ping\",\"more\":\"yes\",\"pad\":\"",
                    _ => b"this is not json ",
                };
                let mut m = head.to_vec();
                while m.len() + 3 < *sz {
                    m.push(b'p');
                }
                m.extend_from_slice(b"\"}");
                m.push(0);
                conns.push(LConn::healthy(&m));
                steps.push(Step::Connect(i));
                steps.push(Step::Send(i, m.len()));
                steps.push(Step::Quiesce);
                steps.push(Step::Close(i));
                if k % 12 == 11 {
                    probe(&mut conns, &mut steps, &mut rng);
                }
            }
            probe(&mut conns, &mut steps, &mut rng);
            probe(&mut conns, &mut steps, &mut rng);
            let mut lc = LCase::single(&cfg, conns[0].clone(), steps, SchedCfg::random(&mut rng, 1));
            lc.conns = conns;
            lc.initial = 1;
            lc.max = 4;
            Case::L(lc)
        }),
    }]
}

fn random_conn(rng: &mut Rng, cfg: &SvcCfg, idx: usize, full: &[crate::alphabet::Kind]) -> LConn {
    let len = rng.range(1, 8) as usize;
    let kinds: Vec<_> = (0..len).map(|_| *rng.pick(full)).collect();
    let s = token_stream(cfg, &kinds, idx);
    let mut c = LConn::healthy(&s);
    if rng.chance(1, 3) {
        c.srv_read_plan = (0..rng.range(1, 20)).map(|_| rng.range(1, 80) as u16).collect();
    }
    if rng.chance(1, 4) {
        c.srv_write_plan = (0..rng.range(1, 20)).map(|_| rng.range(1, 80) as u16).collect();
    }
    c
}

pub fn c13_plan(tier: Tier) -> Plan {
    let cfg = SvcCfg::basic();
    let mut spaces = Vec::new();
    let nmax: u64 = if tier == Tier::Quick { 8 } else { 64 };
    let n = if tier == Tier::Quick { 20_000 } else { 600_000 };
    {
        let cfg = cfg.clone();
        spaces.push(Space {
            name: "L.multi.random",
            size: n,
            exhaustive: false,
            gen: Box::new(move |_idx, seed| {
                let mut rng = Rng::new(seed);
                let full = crate::alphabet::full();
                let nconn = if rng.chance(1, 12) { rng.range(2, nmax) } else { rng.range(2, 8.min(nmax)) } as usize;
                let fault_cfg = rng.chance(1, 2);
                let mut conns = Vec::new();
                for i in 0..nconn {
                    let mut c = random_conn(&mut rng, &cfg, i, &full);
                    if fault_cfg {
                        // signals: reads and writes of this connection's worker may return EINTR
                        if rng.chance(1, 4) {
                            for x in c.srv_read_plan.iter_mut().chain(c.srv_write_plan.iter_mut()) {
                                if rng.chance(1, 5) {
                                    *x = 0;
                                }
                            }
                            if c.srv_read_plan.is_empty() {
                                c.srv_read_plan = vec![0, 0];
                            }
                        }
                        match rng.below(10) {
                            0 => {
                                // says nothing
                                c.stream = Bytes::from(&[][..]);
                            }
                            1 => {
                                c.peer = Peer::StopReading;
                                c.s2c_cap = rng.range(1, 300) as usize;
                            }
                            2 => c.peer = Peer::Faulty,
                            3 => {
                                // garbage in the middle
                                let mut s = c.stream.to_vec();
                                let p = rng.usize(s.len());
                                s[p] = b'}';
                                c.stream = Bytes::from(&s);
                            }
                            _ => {}
                        }
                    }
                    conns.push(c);
                }
                // a global interleaving of per-connection send segments
                let mut steps: Vec<Step> = Vec::new();
                let mut remaining: Vec<usize> = conns.iter().map(|c| c.stream.to_vec().len()).collect();
                let mut connected = vec![false; nconn];
                let mut open: Vec<usize> = (0..nconn).collect();
                while !open.is_empty() {
                    let k = rng.usize(open.len());
                    let i = open[k];
                    if !connected[i] {
                        connected[i] = true;
                        steps.push(Step::Connect(i));
                        if remaining[i] == 0 {
                            open.remove(k);
                        }
                        continue;
                    }
                    let seg = if rng.chance(1, 3) { remaining[i] } else { rng.range(1, remaining[i] as u64) as usize };
                    steps.push(Step::Send(i, seg));
                    remaining[i] -= seg;
                    if conns[i].peer == Peer::StopReading && remaining[i] == 0 && rng.chance(1, 3) {
                        // the stalled reader goes away for good while the server is blocked writing to it
                        steps.push(Step::Quiesce);
                        steps.push(if rng.chance(1, 2) { Step::Reset(i) } else { Step::Close(i) });
                    }
                    if conns[i].peer == Peer::Faulty && (remaining[i] == 0 || rng.chance(1, 3)) {
                        steps.push(if rng.chance(1, 2) { Step::Reset(i) } else { Step::Close(i) });
                        remaining[i] = 0;
                    }
                    if remaining[i] == 0 {
                        open.remove(k);
                        if conns[i].peer == Peer::Healthy && rng.chance(1, 3) {
                            steps.push(Step::HalfClose(i));
                        }
                    }
                    match rng.below(6) {
                        0 => steps.push(Step::Quiesce),
                        1 => steps.push(Step::Yield(rng.range(1, 4) as u8)),
                        _ => {}
                    }
                }
                let mut lc = LCase::single(&cfg, conns[0].clone(), steps, SchedCfg::random(&mut rng, 1));
                lc.conns = conns;
                lc.initial = rng.range(1, 3) as usize;
                // now and then real clients (Connection + MethodCall) talk to the same server
                let mut nreal = 0;
                if rng.chance(1, 4) {
                    nreal = rng.range(1, 3) as usize;
                    for c in 0..nreal {
                        let ops: Vec<COp> = (0..rng.range(1, 6)).map(|i| cop_of(&cfg, *rng.pick(&full), &format!("k{}-{}", c, i))).collect();
                        lc.clients.push(RealClient {
                            ops,
                            cli_read_plan: if rng.chance(1, 2) { (0..rng.range(1, 20)).map(|_| rng.range(1, 60) as u16).collect() } else { vec![] },
                            srv_read_plan: vec![],
                        });
                    }
                }
                // the property quantifies over connection counts below the worker limit
                lc.max = nconn + nreal + 1 + rng.usize(4);
                Case::L(lc)
            }),
        });
    }
    {
        // histories with quiet moments: generations of connections that open, talk and close, the
        // server draining completely in between, and at the end an idle connection beside a new one
        let cfg = cfg.clone();
        let n = if tier == Tier::Quick { 6_000 } else { 200_000 };
        spaces.push(Space {
            name: "L.multi.phased",
            size: n,
            exhaustive: false,
            gen: Box::new(move |_idx, seed| {
                let mut rng = Rng::new(seed);
                let red = crate::alphabet::reduced();
                let mut conns: Vec<LConn> = Vec::new();
                let mut steps: Vec<Step> = Vec::new();
                let phases = rng.range(1, 4) as usize;
                for _ in 0..phases {
                    let k = rng.range(1, 3) as usize;
                    let first = conns.len();
                    for _ in 0..k {
                        let i = conns.len();
                        let kinds: Vec<_> = (0..rng.range(1, 3)).map(|_| *rng.pick(&red)).collect();
                        conns.push(LConn::healthy(&token_stream(&cfg, &kinds, i)));
                        steps.push(Step::Connect(i));
                        steps.push(Step::Send(i, 10_000));
                    }
                    if rng.chance(1, 2) {
                        steps.push(Step::Quiesce);
                    }
                    // they leave in a random order
                    let mut order: Vec<usize> = (first..conns.len()).collect();
                    for a in (1..order.len()).rev() {
                        order.swap(a, rng.usize(a + 1));
                    }
                    for i in order {
                        steps.push(Step::HalfClose(i));
                        if rng.chance(1, 2) {
                            steps.push(Step::Quiesce);
                        }
                    }
                    steps.push(Step::Quiesce);
                }
                // the last generation stays: idle connections and one that talks
                let idle = rng.range(1, 2) as usize;
                for _ in 0..idle {
                    let i = conns.len();
                    conns.push(LConn::healthy(&[]));
                    steps.push(Step::Connect(i));
                }
                if rng.chance(2, 3) {
                    steps.push(Step::Quiesce);
                }
                // in a third of the histories the server has an idle timeout (with or without a stop
                // flag) and the idle connections stay open across the deadline: the server is not idle,
                // the connection that arrives afterwards must be served like any other
                let timed = rng.chance(1, 3);
                if timed {
                    steps.push(Step::Sleep(*rng.pick(&[400u64, 900, 1000, 1100, 2500, 3500])));
                    if rng.chance(1, 2) {
                        steps.push(Step::Quiesce);
                    }
                }
                // now and then the stop flag is raised in the very moment the last connection arrives:
                // it may not be accepted any more, but if it is, it is served like any other
                let stop_now = rng.chance(1, 6);
                if stop_now {
                    steps.push(Step::SetStop);
                }
                let i = conns.len();
                let kinds: Vec<_> = (0..rng.range(1, 3)).map(|_| *rng.pick(&red)).collect();
                conns.push(LConn::healthy(&token_stream(&cfg, &kinds, i)));
                steps.push(Step::Connect(i));
                steps.push(Step::Send(i, 10_000));
                let mut lc = LCase::single(&cfg, conns[0].clone(), steps, SchedCfg::random(&mut rng, 1));
                lc.conns = conns;
                lc.initial = rng.range(1, 2) as usize;
                lc.max = *rng.pick(&[4usize, 8, 100]);
                if timed {
                    lc.idle_timeout = rng.range(1, 2);
                    lc.stop_flag = rng.chance(1, 2);
                }
                if stop_now {
                    lc.stop_flag = true;
                }
                Case::L(lc)
            }),
        });
    }
    {
        // long histories: dozens of connections served one after the other (and a few overlapping) by
        // a small pool, so that the same worker serves its N-th connection
        let cfg = cfg.clone();
        let n = if tier == Tier::Quick { 600 } else { 20_000 };
        spaces.push(Space {
            name: "L.multi.long-history",
            size: n,
            exhaustive: false,
            gen: Box::new(move |idx, seed| {
                let mut rng = Rng::new(seed);
                let mut c = long_history_case(&cfg, &mut rng, 0, false);
                if idx % 2 == 1 {
                    // churn beside connections that stay: two idle connections are open from the start,
                    // every short connection ends right when the next one arrives, and in the end a group
                    // of connections arrives together and stays
                    let n0 = c.conns.len();
                    let idle = rng.range(1, 3) as usize;
                    let mut pre = Vec::new();
                    for k in 0..idle {
                        c.conns.push(LConn::healthy(&[]));
                        pre.push(Step::Connect(n0 + k));
                    }
                    pre.push(Step::Quiesce);
                    // no quiescence waits inside the churn: closes race with the next accept
                    let churn: Vec<Step> = c.steps.iter().filter(|s| !matches!(s, Step::Quiesce)).cloned().collect();
                    pre.extend(churn);
                    let late = rng.range(3, 6) as usize;
                    let base = c.conns.len();
                    for k in 0..late {
                        let i = base + k;
                        c.conns.push(LConn::healthy(&token_stream(&cfg, &[crate::alphabet::Kind(crate::alphabet::Base::Echo, crate::alphabet::Flags::NONE)], i)));
                        pre.push(Step::Connect(i));
                    }
                    for k in 0..late {
                        pre.push(Step::Send(base + k, 10_000));
                    }
                    c.steps = pre;
                    c.initial = 1;
                    c.max = 100;
                }
                Case::L(c)
            }),
        });
    }
    Plan {
        spaces,
        rule: "L: 2..8 (quick) / 2..64 (thorough) simultaneous raw clients against the real listen loop, max_worker_threads above the connection count; each client pipelines a random request sequence over the full alphabet whose tokens embed its connection number; a seeded global interleaving of per-connection send segments, quiescence waits and yields; random server-side short reads / short writes; in the fault-injecting half of the runs some peers say nothing, never read (tiny window: server writes block), send garbage, or reset / close in mid-stream. Oracles: per connection the reply stream equals the reference model of its own requests (strict for healthy peers, prefix-consistent for faulted ones), no foreign token ever appears, and at quiescence *while misbehaving peers are still stalled* every healthy connection has its complete replies. A second space plays histories with quiet moments: 1..4 generations of connections that open, talk and close (in random order) with the server draining completely in between, then idle connections stay open while a new one arrives and must be served. Distinct = (case, hash of the context-switch sequence); non-trivial = at least 6 context switches.".into(),
        level: "exploration",
        real: {
            let mut r = REAL_L.to_vec();
            r.push("generated proxies for org.example.ping / org.example.more, hand-written scripted interfaces");
            r
        },
        stub: STUB_L.to_vec(),
        assumptions: vec![
            "serde_json is the trusted JSON syntax oracle of the reference model".into(),
            "shuttle's model of std threads / mpsc / Mutex / RwLock is faithful".into(),
            "TCP vs unix sockets are not distinguished: both are reliable ordered byte streams behind the Stream trait".into(),
        ],
    }
}

/// C14 through the real listen loop: bursts of long-lived connections against small pools
pub fn c14_spaces(tier: Tier) -> Vec<Space> {
    use crate::alphabet::{Base, Flags, Kind};
    let cfg = SvcCfg::basic();
    let pools = [(1usize, 1usize), (1, 2), (1, 3), (2, 2), (2, 3), (1, 4), (3, 4), (3, 2)];
    let seeds: u64 = if tier == Tier::Quick { 20 } else { 400 };
    let nconns = [2usize, 3, 4, 5, 6];
    let size = pools.len() as u64 * nconns.len() as u64 * 7 * seeds;
    vec![Space {
        name: "L.pool.bursts",
        size,
        exhaustive: false,
        gen: Box::new(move |idx, seed| {
            let mut rng = Rng::new(seed);
            let mut i = idx / seeds;
            let (initial, max) = pools[(i % pools.len() as u64) as usize];
            i /= pools.len() as u64;
            let n = nconns[(i % nconns.len() as u64) as usize];
            i /= nconns.len() as u64;
            // 0: all connect, then all send; 1: connect+send one by one without waiting;
            // 2: the same with a quiescence wait after each; 3: some connections end in between;
            // 4: as 1, but every second connection upgrades itself and keeps talking the upgraded protocol
            // 5: as 1, but all connections except the last one end in an error of the implementation
            //    (the worker's error path), the last one must be served once the others are gone
            // 6: an idle timeout of 1 s; the first connections arrive together and stay (the pool grows),
            //    one or more idle periods pass, then the last connection arrives and must be served
            let pattern = i % 7;
            let mut conns = Vec::new();
            let mut steps = Vec::new();
            let mut cfg = cfg.clone();
            if pattern == 4 {
                cfg.upgrade_mode = 3;
            }
            for c in 0..n {
                let mut s = token_stream(&cfg, &[Kind(Base::Echo, Flags::NONE), Kind(Base::GetInfo, Flags::NONE)], c);
                if pattern == 4 && c % 2 == 0 {
                    s.extend(crate::alphabet::frame(&crate::alphabet::upgrade_request(&cfg, c % 4 == 0, &format!("c{}-up", c))));
                    s.extend_from_slice(b"a\nEnd\n");
                }
                if pattern == 5 && c + 1 < n {
                    s = token_stream(&cfg, &[Kind(Base::HandlerErr, Flags::NONE)], c);
                }
                conns.push(LConn::healthy(&s));
            }
            match pattern {
                0 => {
                    for c in 0..n {
                        steps.push(Step::Connect(c));
                    }
                    for c in 0..n {
                        steps.push(Step::Send(c, 10_000));
                    }
                }
                6 => {
                    for c in 0..n - 1 {
                        steps.push(Step::Connect(c));
                        steps.push(Step::Send(c, 10_000));
                    }
                    steps.push(Step::Quiesce);
                    steps.push(Step::Sleep(*rng.pick(&[1100u64, 1500, 2100, 3300])));
                    if rng.chance(1, 2) {
                        steps.push(Step::Quiesce);
                    }
                    steps.push(Step::Connect(n - 1));
                    steps.push(Step::Send(n - 1, 10_000));
                }
                1 | 4 | 5 => {
                    for c in 0..n {
                        steps.push(Step::Connect(c));
                        steps.push(Step::Send(c, 10_000));
                        if rng.chance(1, 3) {
                            steps.push(Step::Yield(rng.range(1, 5) as u8));
                        }
                    }
                }
                2 => {
                    for c in 0..n {
                        steps.push(Step::Connect(c));
                        steps.push(Step::Send(c, 10_000));
                        steps.push(Step::Quiesce);
                    }
                }
                _ => {
                    for c in 0..n {
                        steps.push(Step::Connect(c));
                        steps.push(Step::Send(c, 10_000));
                        if c > 0 && rng.chance(1, 2) {
                            steps.push(Step::HalfClose(rng.usize(c)));
                        }
                        if rng.chance(1, 2) {
                            steps.push(Step::Quiesce);
                        }
                    }
                }
            }
            let mut lc = LCase::single(&cfg, conns[0].clone(), steps, SchedCfg::random(&mut rng, 1));
            lc.conns = conns;
            lc.initial = initial;
            lc.max = max;
            if pattern == 6 {
                lc.idle_timeout = 1;
                lc.stop_flag = rng.chance(1, 3);
            }
            Case::L(lc)
        }),
    }]
}

/// dozens of short connections, mostly one after the other, against a small pool; with an idle
/// timeout the server must still notice that it is idle afterwards
pub fn long_history_case(cfg: &SvcCfg, rng: &mut Rng, idle_timeout: u64, stop_flag: bool) -> LCase {
    let red = crate::alphabet::reduced();
    let n = rng.range(15, 50) as usize;
    let mut conns = Vec::new();
    let mut steps = Vec::new();
    let mut open: Vec<usize> = Vec::new();
    for i in 0..n {
        let kinds: Vec<_> = (0..rng.range(1, 3)).map(|_| *rng.pick(&red)).collect();
        conns.push(LConn::healthy(&token_stream(cfg, &kinds, i)));
        steps.push(Step::Connect(i));
        steps.push(Step::Send(i, 10_000));
        open.push(i);
        // usually the connection ends before the next one comes; sometimes two or three overlap
        while !open.is_empty() && (open.len() > 3 || rng.chance(3, 4)) {
            let k = rng.usize(open.len());
            let c = open.remove(k);
            if rng.chance(1, 2) {
                steps.push(Step::Quiesce);
            }
            steps.push(Step::HalfClose(c));
        }
        match rng.below(4) {
            0 => steps.push(Step::Quiesce),
            1 if idle_timeout > 0 => steps.push(Step::Sleep(rng.range(1, idle_timeout * 1000 - 1))),
            _ => {}
        }
    }
    for c in open {
        steps.push(Step::HalfClose(c));
    }
    let (initial, max) = *rng.pick(&[(1usize, 1usize), (1, 2), (2, 2), (1, 4), (2, 4), (1, 100)]);
    LCase {
        cfg: cfg.clone(),
        initial,
        max,
        idle_timeout,
        stop_flag,
        conns,
        steps,
        sched: SchedCfg::random(rng, 1),
        slow_clock: 0,
        clients: vec![],
    }
}

pub fn c15_plan(tier: Tier) -> Plan {
    let cfg = SvcCfg::basic();
    let mut spaces = Vec::new();
    // systematic histories
    {
        let cfg = cfg.clone();
        let hist = 14u64;
        let idle = [0u64, 1, 2];
        let stopm = 5u64; // absent, present-never-set, set before, set during, set after
        let pools = [(1usize, 1usize), (1, 4), (2, 2), (3, 4)];
        let seeds: u64 = if tier == Tier::Quick { 8 } else { 100 };
        let size = hist * idle.len() as u64 * stopm * pools.len() as u64 * 2 * seeds;
        spaces.push(Space {
            name: "L.life.systematic",
            size,
            exhaustive: false,
            gen: Box::new(move |idx, seed| {
                let mut rng = Rng::new(seed);
                let mut i = idx / seeds;
                let h = i % hist;
                i /= hist;
                let it = idle[(i % 3) as usize];
                i /= 3;
                let sm = i % stopm;
                i /= stopm;
                let (initial, max) = pools[(i % 4) as usize];
                i /= 4;
                let slow = if i % 2 == 1 { 30 } else { 0 };
                Case::L(life_case(&cfg, &mut rng, h, it, sm, initial, max, slow, false))
            }),
        });
    }
    // the same with signals interrupting select (fault-injecting configuration)
    {
        let cfg = cfg.clone();
        let n = if tier == Tier::Quick { 5_000 } else { 150_000 };
        spaces.push(Space {
            name: "L.life.signals",
            size: n,
            exhaustive: false,
            gen: Box::new(move |_idx, seed| {
                let mut rng = Rng::new(seed);
                let h = rng.below(14);
                let it = rng.below(3);
                let sm = rng.below(5);
                let (initial, max) = *rng.pick(&[(1usize, 1usize), (1, 4), (2, 2), (3, 4)]);
                let slow = if rng.chance(1, 3) { 30 } else { 0 };
                Case::L(life_case(&cfg, &mut rng, h, it, sm, initial, max, slow, true))
            }),
        });
    }
    {
        // after a long history of connections the server must still find out that it is idle
        let cfg = cfg.clone();
        let n = if tier == Tier::Quick { 500 } else { 15_000 };
        spaces.push(Space {
            name: "L.life.long-history",
            size: n,
            exhaustive: false,
            gen: Box::new(move |_idx, seed| {
                let mut rng = Rng::new(seed);
                let idle = rng.range(1, 2);
                let stop = rng.chance(1, 2);
                let mut c = long_history_case(&cfg, &mut rng, idle, stop);
                if stop && rng.chance(1, 2) {
                    c.steps.push(Step::Sleep(rng.range(0, 300)));
                    c.steps.push(Step::SetStop);
                }
                Case::L(c)
            }),
        });
    }
    spaces.push(Space {
        name: "R.socket-path (real filesystem)",
        size: 5,
        exhaustive: true,
        gen: Box::new(|idx, _| Case::Fs(idx as u8)),
    });
    Plan {
        spaces,
        rule: "L with the simulated clock: idle_timeout {0,1,2} s x stop flag {absent, present but never set, set before / during / after the connections} x pools {(1,1),(1,4),(2,2),(3,4)} x fast-CPU / slow-thread clock x connection histories {none; one short; arrival just before the idle deadline; long-lived across several deadlines; closing exactly at the deadline; streaming reply blocked on a full window when the flag is set; arrivals every 50 ms for 3 s after the flag; burst of connections then silence; client vanishing mid-message; signals arriving every 30 ms for 2.5 idle periods with nobody connected; signal storm around a long-lived connection; an upgraded connection living across several deadlines} x seeded schedules; long histories of 15..50 short connections (mostly sequential, a few overlapping) against small pools, after which the server must still notice that it is idle or that the flag was set; a second batch injects signals into select (EINTR) at random points. Oracles on simulated milliseconds: Timeout only with idle_timeout>0 and >= idle_timeout since the last accept, never while a connection is in service (fast-CPU mode), Ok only and always once the flag is set, no accept starting > 1 s after the flag takes a connection, listen returns only after every accepted connection was closed by its worker with complete replies, promptly (fast-CPU mode), and it does return.".into(),
        level: "exploration",
        real: REAL_L.to_vec(),
        stub: {
            let mut s = STUB_L.to_vec();
            s.push("socket-path removal (Listener::drop) cannot be exercised by the simulated listener (it has no path): that one clause is looked at outside the simulation, with the real Listener on the real filesystem (space R.socket-path, 5 address forms)");
            s
        },
        assumptions: vec![
            "'shortly after the flag is set' is read as: no accept() that starts more than 1 s (ten poll quanta) after the flag takes a connection".into(),
            "in slow-thread mode only the clauses that cannot be confused by a lagging thread are checked".into(),
        ],
    }
}

#[allow(clippy::too_many_arguments)]
fn life_case(cfg: &SvcCfg, rng: &mut Rng, hist: u64, idle: u64, stopm: u64, initial: usize, max: usize, slow: u8, signals: bool) -> LCase {
    use crate::alphabet::{Base, Flags, Kind};
    let stop_flag = stopm > 0;
    let echo = |c: usize| token_stream(cfg, &[Kind(Base::Echo, Flags::NONE), Kind(Base::GetInfo, Flags::NONE)], c);
    let big = |c: usize| {
        token_stream(
            cfg,
            &[Kind(Base::MoreTestMore, Flags::MORE), Kind(Base::DescRegistered, Flags::NONE), Kind(Base::MoreTestMore, Flags::MORE)],
            c,
        )
    };
    let mut conns: Vec<LConn> = Vec::new();
    let mut steps: Vec<Step> = Vec::new();
    if stopm == 2 {
        steps.push(Step::SetStop);
    }
    if stopm == 3 && hist == 9 {
        // set during the signal storm
        steps.push(Step::Sleep(rng.range(0, 400)));
        steps.push(Step::SetStop);
    }
    let idle_ms = idle.max(1) * 1000;
    match hist {
        0 => {
            // nobody comes
            steps.push(Step::Sleep(rng.range(100, 2500)));
        }
        1 => {
            conns.push(LConn::healthy(&echo(0)));
            steps.extend([Step::Sleep(rng.range(0, 400)), Step::Connect(0), Step::Send(0, 10_000), Step::Quiesce, Step::HalfClose(0)]);
        }
        2 => {
            // arrival just before the idle deadline
            conns.push(LConn::healthy(&echo(0)));
            // (including the exact poll boundaries around the deadline)
            let before = if rng.chance(1, 2) { *rng.pick(&[0u64, 1, 99, 100, 101, 199, 200]) } else { rng.range(1, 120) };
            steps.extend([Step::Sleep(idle_ms.saturating_sub(before)), Step::Connect(0), Step::Send(0, 10_000), Step::Sleep(rng.range(1, 300)), Step::HalfClose(0)]);
        }
        3 => {
            // long-lived across several deadlines
            conns.push(LConn::healthy(&echo(0)));
            steps.extend([Step::Connect(0), Step::Send(0, 40), Step::Sleep(idle_ms * 2 + rng.range(0, 700)), Step::Send(0, 10_000), Step::Sleep(rng.range(0, 200)), Step::HalfClose(0)]);
        }
        4 => {
            // closing exactly at the deadline
            conns.push(LConn::healthy(&echo(0)));
            steps.extend([Step::Connect(0), Step::Send(0, 10_000), Step::Sleep(idle_ms), Step::HalfClose(0)]);
        }
        5 => {
            // streaming reply blocked on a full window when the flag is set
            let mut c = LConn::healthy(&big(0));
            c.peer = Peer::StopReading;
            c.s2c_cap = rng.range(16, 200) as usize;
            conns.push(c);
            steps.extend([Step::Connect(0), Step::Send(0, 10_000), Step::Quiesce]);
            if stopm == 3 {
                steps.push(Step::SetStop);
            }
            steps.push(Step::Sleep(rng.range(50, 1500)));
        }
        6 => {
            // arrivals every 50 ms for 3 s
            let k = 60usize;
            for i in 0..k {
                conns.push(LConn::healthy(&echo(i)));
            }
            for i in 0..k {
                steps.extend([Step::Connect(i), Step::Send(i, 10_000), Step::Sleep(50), Step::HalfClose(i)]);
                if i == 3 && stopm == 3 {
                    steps.push(Step::SetStop);
                }
            }
        }
        7 => {
            // burst then silence
            let k = rng.range(2, 5) as usize;
            for i in 0..k {
                conns.push(LConn::healthy(&echo(i)));
                steps.push(Step::Connect(i));
            }
            for i in 0..k {
                steps.push(Step::Send(i, 10_000));
            }
            steps.push(Step::Sleep(rng.range(0, 600)));
            for i in 0..k {
                steps.push(Step::HalfClose(i));
            }
        }
        13 => {
            // a long-lived connection beside short ones that come and go; then one or two idle periods
            // of silence, the long-lived one still open; then a late connection; then everybody leaves
            conns.push(LConn::healthy(&echo(0)));
            steps.extend([Step::Connect(0), Step::Send(0, 10_000)]);
            let shorts = rng.range(1, 3) as usize;
            for k in 1..=shorts {
                conns.push(LConn::healthy(&echo(k)));
                steps.extend([Step::Connect(k), Step::Send(k, 10_000)]);
                if rng.chance(1, 2) {
                    steps.push(Step::Quiesce);
                }
                steps.push(Step::HalfClose(k));
            }
            steps.push(Step::Quiesce);
            steps.push(Step::Sleep(idle_ms + rng.range(100, idle_ms + 400)));
            let late = shorts + 1;
            conns.push(LConn::healthy(&echo(late)));
            steps.extend([Step::Connect(late), Step::Send(late, 10_000), Step::Sleep(rng.range(0, 300)), Step::HalfClose(late), Step::HalfClose(0)]);
        }
        12 => {
            // an upgraded connection that lives across several deadlines (and across the stop flag)
            let mut c2 = cfg.clone();
            c2.upgrade_mode = 3;
            let mut s = echo(0);
            s.extend(crate::alphabet::frame(&crate::alphabet::upgrade_request(&c2, rng.chance(1, 2), "c0-up")));
            s.extend_from_slice(b"a\nEnd\n");
            let first = s.len();
            s.extend_from_slice(b"b\nEnd\n");
            conns.push(LConn::healthy(&s));
            steps.extend([Step::Connect(0), Step::Send(0, first), Step::Sleep(idle_ms * 2 + rng.range(0, 700)), Step::Send(0, 10_000), Step::Sleep(rng.range(0, 300)), Step::HalfClose(0)]);
        }
        9 => {
            // nobody comes, but signals keep arriving faster than the poll interval (interval timer,
            // profiler): every interrupted select must go on with the *remaining* time
            let total = idle_ms * 5 / 2;
            let mut t = 0;
            while t < total {
                steps.push(Step::Signal);
                steps.push(Step::Sleep(30));
                t += 30;
            }
        }
        10 => {
            // the same while a connection is open, which then closes
            conns.push(LConn::healthy(&echo(0)));
            steps.extend([Step::Connect(0), Step::Send(0, 10_000), Step::Quiesce]);
            for _ in 0..rng.range(20, 60) {
                steps.push(Step::Signal);
                steps.push(Step::Sleep(rng.range(10, 60)));
            }
            steps.push(Step::HalfClose(0));
            for _ in 0..rng.range(20, 90) {
                steps.push(Step::Signal);
                steps.push(Step::Sleep(rng.range(10, 60)));
            }
        }
        _ => {
            // a client that vanishes mid-message, next to a healthy one
            let mut c = LConn::healthy(&echo(0));
            c.peer = Peer::Faulty;
            conns.push(c);
            conns.push(LConn::healthy(&echo(1)));
            steps.extend([Step::Connect(0), Step::Send(0, 30), Step::Connect(1), Step::Send(1, 10_000), Step::Sleep(rng.range(0, 300)), Step::Close(0), Step::HalfClose(1)]);
        }
    }
    if stopm == 3 && hist != 5 && hist != 6 && hist != 9 {
        // during: somewhere in the middle of the script
        let p = rng.range(1, steps.len() as u64) as usize;
        steps.insert(p, Step::SetStop);
    }
    if stopm == 4 {
        steps.push(Step::Sleep(rng.range(0, 500)));
        steps.push(Step::SetStop);
    }
    if signals {
        for _ in 0..rng.range(1, 3) {
            let p = rng.range(0, steps.len() as u64) as usize;
            steps.insert(p, Step::Signal);
            if rng.chance(1, 2) {
                // make sure a select is blocked when the signal arrives
                steps.insert(p, Step::Quiesce);
            }
        }
    }
    let mut cfg = cfg.clone();
    if hist == 12 {
        cfg.upgrade_mode = 3;
    }
    LCase {
        cfg,
        initial,
        max,
        idle_timeout: idle,
        stop_flag,
        conns,
        steps,
        sched: SchedCfg::random(rng, 1),
        slow_clock: slow,
        clients: vec![],
    }
}
