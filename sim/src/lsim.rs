//! stub (to be replaced)
use serde_derive::{Deserialize, Serialize};
use crate::report::RunResult;
#[derive(Clone, Debug, Serialize, Deserialize)]
pub struct LCase {}
pub fn eval_l(_c: &LCase) -> RunResult { RunResult::default() }
pub fn shrinks(_c: &LCase) -> Vec<LCase> { vec![] }
use crate::props::{Plan, Space};
use crate::report::Tier;
pub const REAL_L: [&str; 0] = [];
pub const STUB_L: [&str; 0] = [];
pub fn c01_spaces(_t: Tier) -> Vec<Space> { vec![] }
pub fn c02_spaces(_t: Tier) -> Vec<Space> { vec![] }
pub fn c03_spaces(_t: Tier) -> Vec<Space> { vec![] }
pub fn c06_spaces(_t: Tier) -> Vec<Space> { vec![] }
pub fn c13_plan(_t: Tier) -> Plan { unimplemented!() }
pub fn c15_plan(_t: Tier) -> Plan { unimplemented!() }
