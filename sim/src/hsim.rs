//! Scenario H: the real `VarlinkService::handle` driven in memory by the documented caller loop
//! (append the new chunk to the kept tail, call `handle`, keep the returned tail), with a scripted
//! reader (short reads, EINTR) and writer (short writes, EINTR, error at an offset).
//! Single-threaded: no scheduler involved.

use std::io::{self, BufRead, Read, Write};
use std::panic::{catch_unwind, AssertUnwindSafe};

use serde_derive::{Deserialize, Serialize};
use varlink::ConnectionHandler;

use crate::model::SvcCfg;
use crate::svc::{build_service, new_rec, Rec};

/// request bytes in a replay-file friendly form
#[derive(Clone, Debug, Serialize, Deserialize, PartialEq)]
pub enum Bytes {
    Utf8(String),
    Hex(String),
}
impl Bytes {
    pub fn from(b: &[u8]) -> Bytes {
        match std::str::from_utf8(b) {
            Ok(s) => Bytes::Utf8(s.to_string()),
            Err(_) => Bytes::Hex(b.iter().map(|x| format!("{:02x}", x)).collect()),
        }
    }
    pub fn to_vec(&self) -> Vec<u8> {
        match self {
            Bytes::Utf8(s) => s.as_bytes().to_vec(),
            Bytes::Hex(h) => (0..h.len() / 2)
                .map(|i| u8::from_str_radix(&h[2 * i..2 * i + 2], 16).unwrap_or(0))
                .collect(),
        }
    }
}

#[derive(Clone, Debug, Serialize, Deserialize, PartialEq)]
pub struct HCase {
    pub cfg: SvcCfg,
    pub stream: Bytes,
    /// sorted cut offsets into the stream; chunk k = stream[cuts[k-1]..cuts[k]]
    pub cuts: Vec<usize>,
    /// per `read` call on the caller's reader: 0 = EINTR, n = at most n bytes; exhausted = no limit
    pub read_plan: Vec<u16>,
    /// per `write` call: 0 = EINTR, n = at most n bytes; exhausted = no limit
    pub write_plan: Vec<u16>,
    /// writes fail with EPIPE once this many bytes were accepted (fault-injecting runs only)
    pub write_err_at: Option<usize>,
    /// what happens at `write_err_at`: 0 EPIPE from then on; transient, once: 1 the write that would
    /// pass the offset returns WouldBlock, 2 TimedOut (a send timeout firing after a partial write);
    /// 3 / 4 / 5 the next flush returns Interrupted / WouldBlock / TimedOut
    #[serde(default)]
    pub write_err_kind: u8,
}

impl HCase {
    pub fn plain(cfg: &SvcCfg, stream: &[u8]) -> HCase {
        HCase {
            cfg: cfg.clone(),
            stream: Bytes::from(stream),
            cuts: vec![],
            read_plan: vec![],
            write_plan: vec![],
            write_err_at: None,
            write_err_kind: 0,
        }
    }
    pub fn has_faults(&self) -> bool {
        self.write_err_at.is_some()
    }
}

#[derive(Debug)]
pub struct Counters {
    pub short_reads: u64,
    pub read_eintr: u64,
    pub short_writes: u64,
    pub write_eintr: u64,
    pub write_errors: u64,
    pub handle_calls: u64,
    pub read_calls: u64,
}

struct PlanIter<'a> {
    plan: &'a [u16],
    pos: usize,
}
impl<'a> PlanIter<'a> {
    fn next(&mut self) -> Option<u16> {
        let v = self.plan.get(self.pos).copied();
        if v.is_some() {
            self.pos += 1;
        }
        v
    }
}

/// The caller-provided reader: a slice with scripted short reads and EINTR.
struct FaultReader<'a, 'p, 'c> {
    data: &'a [u8],
    pos: usize,
    plan: &'p mut PlanIter<'c>,
    cnt: &'p mut Counters,
}
impl Read for FaultReader<'_, '_, '_> {
    fn read(&mut self, out: &mut [u8]) -> io::Result<usize> {
        self.cnt.read_calls += 1;
        let avail = self.data.len() - self.pos;
        if avail == 0 || out.is_empty() {
            return Ok(0);
        }
        let mut n = avail.min(out.len());
        match self.plan.next() {
            Some(0) => {
                self.cnt.read_eintr += 1;
                return Err(io::Error::from(io::ErrorKind::Interrupted));
            }
            Some(k) if (k as usize) < n => {
                n = k as usize;
                self.cnt.short_reads += 1;
            }
            _ => {}
        }
        out[..n].copy_from_slice(&self.data[self.pos..self.pos + n]);
        self.pos += n;
        Ok(n)
    }
}
impl BufRead for FaultReader<'_, '_, '_> {
    fn fill_buf(&mut self) -> io::Result<&[u8]> {
        // a BufRead may expose as little as it likes; the plan limits it like a read
        let avail = self.data.len() - self.pos;
        if avail == 0 {
            return Ok(&[]);
        }
        let mut n = avail;
        match self.plan.next() {
            Some(0) => {
                self.cnt.read_eintr += 1;
                return Err(io::Error::from(io::ErrorKind::Interrupted));
            }
            Some(k) if (k as usize) < n => {
                n = k as usize;
                self.cnt.short_reads += 1;
            }
            _ => {}
        }
        Ok(&self.data[self.pos..self.pos + n])
    }
    fn consume(&mut self, amt: usize) {
        self.pos = (self.pos + amt).min(self.data.len());
    }
}

pub struct FaultWriter<'c> {
    pub out: Vec<u8>,
    plan: PlanIter<'c>,
    err_at: Option<usize>,
    err_kind: u8,
    fired: bool,
    pub short_writes: u64,
    pub write_eintr: u64,
    pub write_errors: u64,
    pub flushes: u64,
}
impl Write for FaultWriter<'_> {
    fn write(&mut self, b: &[u8]) -> io::Result<usize> {
        if b.is_empty() {
            return Ok(0);
        }
        let mut n = b.len();
        if let Some(lim) = self.err_at {
            match self.err_kind {
                0 => {
                    if self.out.len() >= lim {
                        self.write_errors += 1;
                        return Err(io::Error::from(io::ErrorKind::BrokenPipe));
                    }
                    n = n.min(lim - self.out.len());
                }
                1 | 2 if !self.fired => {
                    if self.out.len() >= lim {
                        self.fired = true;
                        self.write_errors += 1;
                        return Err(io::Error::from(if self.err_kind == 1 { io::ErrorKind::WouldBlock } else { io::ErrorKind::TimedOut }));
                    }
                    n = n.min(lim - self.out.len());
                }
                _ => {}
            }
        }
        match self.plan.next() {
            Some(0) => {
                self.write_eintr += 1;
                return Err(io::Error::from(io::ErrorKind::Interrupted));
            }
            Some(k) if (k as usize) < n => {
                n = k as usize;
                self.short_writes += 1;
            }
            _ => {}
        }
        self.out.extend_from_slice(&b[..n]);
        Ok(n)
    }
    fn flush(&mut self) -> io::Result<()> {
        self.flushes += 1;
        if let Some(lim) = self.err_at {
            if self.err_kind >= 3 && !self.fired && self.out.len() >= lim {
                self.fired = true;
                self.write_errors += 1;
                return Err(io::Error::from(match self.err_kind {
                    3 => io::ErrorKind::Interrupted,
                    4 => io::ErrorKind::WouldBlock,
                    _ => io::ErrorKind::TimedOut,
                }));
            }
        }
        Ok(())
    }
}

#[derive(Clone, Debug, PartialEq)]
pub enum HEnd {
    /// every `handle` call returned Ok; `tail` is what the caller still holds, `iface` the upgraded interface
    Ok { tail: Vec<u8>, iface: Option<String> },
    /// a `handle` call returned Err (the caller drops the connection)
    Err { kind: String, fed: usize },
}

#[derive(Debug)]
pub struct HObs {
    pub wire: Vec<u8>,
    pub end: HEnd,
    pub panicked: Option<String>,
    /// length of `wire` at the moment `handle` first reported an upgrade
    pub upgrade_wire_len: Option<usize>,
    /// concatenation of everything upgraded handlers processed, in order
    pub upgraded_record: Vec<u8>,
    pub upgraded_calls: u64,
    pub rec: Rec,
    pub cnt: Counters,
}

pub fn chunks_of<'a>(stream: &'a [u8], cuts: &[usize]) -> Vec<&'a [u8]> {
    let mut v = Vec::new();
    let mut last = 0usize;
    for &c in cuts {
        let c = c.min(stream.len());
        if c > last {
            v.push(&stream[last..c]);
            last = c;
        }
    }
    if last < stream.len() || stream.is_empty() {
        v.push(&stream[last..]);
    }
    v
}

pub fn panic_text(p: Box<dyn std::any::Any + Send>) -> String {
    if let Some(s) = p.downcast_ref::<&str>() {
        s.to_string()
    } else if let Some(s) = p.downcast_ref::<String>() {
        s.clone()
    } else {
        "non-string panic".to_string()
    }
}

/// Run one case against a freshly built service.
pub fn run_h(case: &HCase) -> HObs {
    let rec = new_rec();
    let svc = build_service(&case.cfg, &rec);
    run_h_with(case, &svc, &rec)
}

/// Run one case against an existing service object (so that several segmentations of the same
/// stream see the same hash-map iteration order) with a cleared recorder.
pub fn run_h_with(case: &HCase, svc: &varlink::VarlinkService, rec: &Rec) -> HObs {
    {
        let mut r = rec.lock().unwrap_or_else(|e| e.into_inner());
        *r = Default::default();
    }
    let stream = case.stream.to_vec();
    let mut cnt = Counters {
        short_reads: 0,
        read_eintr: 0,
        short_writes: 0,
        write_eintr: 0,
        write_errors: 0,
        handle_calls: 0,
        read_calls: 0,
    };
    // (the upgraded handler of shape V5 passes an interrupted read on as an error, by its own choice:
    // in the in-memory scenario, which has no notion of a connection that legitimately ends there, its
    // reads are only ever short, never interrupted; the socket scenario does interrupt them)
    let read_plan: Vec<u16> = if case.cfg.upgrade_mode == 5 {
        case.read_plan.iter().map(|x| (*x).max(1)).collect()
    } else {
        case.read_plan.clone()
    };
    let mut rplan = PlanIter {
        plan: &read_plan,
        pos: 0,
    };
    let mut w = FaultWriter {
        out: Vec::new(),
        plan: PlanIter {
            plan: &case.write_plan,
            pos: 0,
        },
        err_at: case.write_err_at,
        err_kind: case.write_err_kind,
        fired: false,
        short_writes: 0,
        write_eintr: 0,
        write_errors: 0,
        flushes: 0,
    };
    let mut buf: Vec<u8> = Vec::new();
    let mut iface: Option<String> = None;
    let mut end: Option<HEnd> = None;
    let mut panicked = None;
    let mut upgrade_wire_len = None;
    let mut fed = 0usize;
    let chunks = chunks_of(&stream, &case.cuts);
    let mut ci = 0usize;
    // set when `handle` has just reported the upgrade and handed back bytes: the documented caller
    // (examples/ping multiplex) then calls `handle` again at once with those bytes
    let mut again = false;
    loop {
        if again {
            again = false;
        } else {
            if ci >= chunks.len() {
                break;
            }
            let chunk = chunks[ci];
            ci += 1;
            buf.extend_from_slice(chunk);
            fed += chunk.len();
        }
        if buf.is_empty() && !stream.is_empty() {
            continue;
        }
        cnt.handle_calls += 1;
        let plan_pos_before = rplan.pos;
        let res = {
            let mut rd = FaultReader {
                data: &buf,
                pos: 0,
                plan: &mut rplan,
                cnt: &mut cnt,
            };
            let r = catch_unwind(AssertUnwindSafe(|| {
                svc.handle(&mut rd, &mut w, iface.clone())
            }));
            let remaining = rd.data[rd.pos..].to_vec();
            (r, remaining)
        };
        match res {
            (Err(p), _) => {
                panicked = Some(panic_text(p));
                end = Some(HEnd::Err {
                    kind: "panic".into(),
                    fed,
                });
                break;
            }
            (Ok(Err(e)), _) => {
                end = Some(HEnd::Err {
                    kind: format!("{:?}", e.kind()),
                    fed,
                });
                break;
            }
            (Ok(Ok((tail, i))), remaining) => {
                // the careful caller: what `handle` hands back, then what it never took from the reader
                let mut nb = tail;
                nb.extend_from_slice(&remaining);
                let progressed = nb != buf;
                buf = nb;
                if i.is_some() && iface.is_none() {
                    upgrade_wire_len = Some(w.out.len());
                    again = !buf.is_empty();
                } else if i.is_some() {
                    // an upgraded handler that returned in the middle of the buffered bytes (end of a
                    // batch) is called again as long as that makes progress
                    // (a short read is "the rest is not there yet": while the reader's fault plan
                    // still has entries the same bytes may get further on the next call)
                    // (a handler that neither consumed nor read anything gets nowhere by being called
                    // again: a real caller waits for more input then)
                    // A call that used up entries of the fault plan may have seen less than what was
                    // there (short read, EINTR): it is repeated, also when that was the plan's last
                    // entry. A call that read under no constraint and got nowhere is not.
                    again = !buf.is_empty() && (progressed || rplan.pos > plan_pos_before);
                }
                iface = i;
            }
        }
    }
    let end = end.unwrap_or(HEnd::Ok {
        tail: buf,
        iface,
    });
    cnt.short_writes = w.short_writes;
    cnt.write_eintr = w.write_eintr;
    cnt.write_errors = w.write_errors;
    let (upgraded_record, upgraded_calls) = {
        let r = rec.lock().unwrap_or_else(|e| e.into_inner());
        let mut v = Vec::new();
        for (_, b) in &r.upgraded {
            v.extend_from_slice(b);
        }
        (v, r.upgraded_calls)
    };
    HObs {
        wire: w.out,
        end,
        panicked,
        upgrade_wire_len,
        upgraded_record,
        upgraded_calls,
        rec: rec.clone(),
        cnt,
    }
}
