//! Per-property exploration plans: which case spaces a check enumerates or samples, in which order.
//! A space maps (index, run_seed) to an explicit `Case`; enumerated spaces ignore the seed.

use serde_json::{json, Value};

use crate::alphabet::{self, build, frame, request, Base, Flags, Kind};
use crate::cases::Case;
use crate::hsim::{Bytes, HCase};
use crate::model::{split_nul, SvcCfg, MORE, PING, SVC};
use crate::report::Tier;
use crate::rng::Rng;

pub struct Space {
    pub name: &'static str,
    pub size: u64,
    pub exhaustive: bool,
    pub gen: Box<dyn Fn(u64, u64) -> Case + Send + Sync>,
}

pub struct Plan {
    pub spaces: Vec<Space>,
    pub rule: String,
    pub level: &'static str,
    pub real: Vec<&'static str>,
    pub stub: Vec<&'static str>,
    pub assumptions: Vec<String>,
}

impl Plan {
    pub fn total(&self) -> u64 {
        self.spaces.iter().map(|s| s.size).sum()
    }
    pub fn locate(&self, mut i: u64) -> (&Space, u64) {
        for s in &self.spaces {
            if i < s.size {
                return (s, i);
            }
            i -= s.size;
        }
        panic!("index out of plan");
    }
}

fn cuts_for_depth(stream: &[u8], d: usize) -> Vec<usize> {
    let (msgs, _) = split_nul(stream);
    let mut cuts = Vec::new();
    let mut pos = 0usize;
    for (i, m) in msgs.iter().enumerate() {
        pos += m.len() + 1;
        if (i + 1) % d == 0 && i + 1 < msgs.len() {
            cuts.push(pos);
        }
    }
    cuts
}

fn pow(a: u64, n: u32) -> u64 {
    a.pow(n)
}

/// sequences over `alpha` of length 1..=maxlen, each at every pipelining depth 1..=len
fn seq_space(name: &'static str, cfg: SvcCfg, alpha: Vec<Kind>, maxlen: u32, wrap: fn(HCase) -> Case) -> Space {
    let a = alpha.len() as u64;
    let mut size = 0u64;
    for len in 1..=maxlen {
        size += pow(a, len) * len as u64;
    }
    Space {
        name,
        size,
        exhaustive: true,
        gen: Box::new(move |mut idx, _seed| {
            let mut len = 1u32;
            loop {
                let block = pow(a, len) * len as u64;
                if idx < block {
                    break;
                }
                idx -= block;
                len += 1;
            }
            let depth = (idx % len as u64) as usize + 1;
            let mut code = idx / len as u64;
            let mut kinds = Vec::new();
            for _ in 0..len {
                kinds.push(alpha[(code % a) as usize]);
                code /= a;
            }
            let stream = alphabet::stream_of(&cfg, &kinds, "h");
            let mut c = HCase::plain(&cfg, &stream);
            c.cuts = cuts_for_depth(&stream, depth);
            wrap(c)
        }),
    }
}

fn random_plan(rng: &mut Rng, n: usize, max: u16) -> Vec<u16> {
    (0..n)
        .map(|_| {
            if rng.chance(1, 6) {
                0
            } else {
                rng.range(1, max as u64) as u16
            }
        })
        .collect()
}

fn random_cuts_r(rng: &mut Rng, len: usize, lo: u64, hi: u64) -> Vec<usize> {
    let k = rng.range(lo, hi) as usize;
    random_cuts(rng, len, k)
}

fn random_plan_r(rng: &mut Rng, lo: u64, hi: u64, max: u16) -> Vec<u16> {
    let n = rng.range(lo, hi) as usize;
    random_plan(rng, n, max)
}

fn random_cuts(rng: &mut Rng, len: usize, k: usize) -> Vec<usize> {
    let mut v: Vec<usize> = (0..k).map(|_| rng.usize(len.max(1))).collect();
    v.sort();
    v.dedup();
    v.retain(|x| *x > 0);
    v
}

/// seeded random long sequences with random depth, random byte cuts and (legal, non-failing)
/// short reads / EINTR / short writes
fn random_seq_space(name: &'static str, cfg: SvcCfg, n: u64, with_write_error: bool, wrap: fn(HCase) -> Case) -> Space {
    let alpha = alphabet::full();
    Space {
        name,
        size: n,
        exhaustive: false,
        gen: Box::new(move |_idx, seed| {
            let mut rng = Rng::new(seed);
            let len = rng.range(5, 40) as usize;
            let kinds: Vec<Kind> = (0..len).map(|_| alphabet::random_kind(&mut rng, &alpha)).collect();
            let mut stream = alphabet::stream_of(&cfg, &kinds, "h");
            if rng.chance(1, 4) {
                // end with an incomplete message
                let extra = frame(&build(&cfg, Kind(Base::Echo, Flags::NONE), "tail"));
                let cut = rng.range(1, extra.len() as u64 - 1) as usize;
                stream.extend_from_slice(&extra[..cut]);
            }
            let mut c = HCase::plain(&cfg, &stream);
            match rng.below(3) {
                0 => c.cuts = cuts_for_depth(&stream, rng.range(1, len as u64) as usize),
                1 => c.cuts = random_cuts_r(&mut rng, stream.len(), 1, 12),
                _ => {}
            }
            if rng.chance(1, 2) {
                c.read_plan = random_plan_r(&mut rng, 1, 40, 64);
            }
            if rng.chance(1, 2) {
                c.write_plan = random_plan_r(&mut rng, 1, 40, 48);
            }
            if with_write_error {
                c.write_err_at = Some(rng.usize(600));
                // half of the time the error is a transient one (send timeout after a partial write,
                // a flush that is interrupted or times out)
                // (not where a scripted implementation ignores the result of its reply calls: going on
                // after a transient error garbles the stream by the implementation's own doing)
                if rng.chance(1, 2) && !c.stream.to_vec().windows(2).any(|w| w == b"!\"") {
                    c.write_err_kind = rng.range(1, 5) as u8;
                }
            }
            wrap(c)
        }),
    }
}

const REAL_H: &[&str] = &[
    "varlink::VarlinkService::handle",
    "varlink::Call reply paths (reply_struct, reply_parameters, standard error replies)",
    "built-in org.varlink.service interface",
    "generated proxies for org.example.ping and org.example.more (emitted by /repo's varlink_generator at harness build time)",
    "std BufReader/read_until/write_all retry loops",
    "serde_json",
];
const STUB_H: &[&str] = &[
    "caller-provided reader/writer (scripted: chunking, short reads, EINTR, short writes, EPIPE)",
    "method implementations behind the generated traits and the hand-written scripted Interface",
];

fn h_plan(spaces: Vec<Space>, rule: &str, level: &'static str) -> Plan {
    Plan {
        spaces,
        rule: rule.to_string(),
        level,
        real: REAL_H.to_vec(),
        stub: STUB_H.to_vec(),
        assumptions: vec![
            "serde_json is the trusted JSON syntax oracle of the reference model".into(),
            "the in-memory caller keeps bytes it handed to handle() but handle() never took from the reader".into(),
        ],
    }
}

// ---------------------------------------------------------------------------------------------

/// long streams: hundreds of requests on one connection, medium-sized messages so that the 8 KiB
/// buffers are crossed again and again at shifting offsets
fn long_seq_space(name: &'static str, cfg: SvcCfg, n: u64, wrap: fn(HCase) -> Case) -> Space {
    let alpha = alphabet::full();
    Space {
        name,
        size: n,
        exhaustive: false,
        gen: Box::new(move |_idx, seed| {
            let mut rng = Rng::new(seed);
            let len = rng.range(150, 1200) as usize;
            let a = cfg.scripted[0].clone();
            let mut stream = Vec::new();
            for i in 0..len {
                if rng.chance(1, 3) {
                    let pad = rng.range(0, 4000) as usize;
                    stream.extend(frame(&request(
                        &format!("{}.Echo", a),
                        Some(json!({"token": format!("h-{}", i), "pad": "p".repeat(pad)})),
                        Flags::NONE,
                    )));
                } else {
                    // no request kind that ends the connection: the history has to stay long
                    let fr = loop {
                        let k = alphabet::random_kind(&mut rng, &alpha);
                        let fr = frame(&build(&cfg, k, &format!("h-{}", i)));
                        let keeps_going = match crate::model::classify(&fr[..fr.len() - 1]) {
                            crate::model::Class::Well(v) => {
                                let e = crate::model::expect(&cfg, &v);
                                e.then == crate::model::Then::Continue && !e.unspecified && e.upgraded.is_none()
                            }
                            _ => false,
                        };
                        if keeps_going {
                            break fr;
                        }
                    };
                    stream.extend(fr);
                }
            }
            let mut c = HCase::plain(&cfg, &stream);
            match rng.below(4) {
                0 => {}
                1 => c.cuts = random_cuts_r(&mut rng, stream.len(), 1, 40),
                2 => {
                    // fixed-size chunks, like a caller reading 8192 bytes at a time
                    let sz = *rng.pick(&[512usize, 4096, 8192, 8191, 10000]);
                    c.cuts = (1..stream.len() / sz + 1).map(|k| k * sz).filter(|x| *x < stream.len()).collect();
                }
                _ => c.read_plan = random_plan_r(&mut rng, 10, 200, 9000),
            }
            if rng.chance(1, 3) {
                c.write_plan = random_plan_r(&mut rng, 10, 100, 9000);
            }
            wrap(c)
        }),
    }
}

/// request sizes exactly at, one below and one above the powers of two a buffer, a limit or a fast
/// path might be built around (64 bytes .. 1 MiB), among ordinary requests
fn size_ladder_space(name: &'static str, cfg: SvcCfg, n: u64, wrap: fn(HCase) -> Case) -> Space {
    let alpha = alphabet::reduced();
    Space {
        name,
        size: n,
        exhaustive: false,
        gen: Box::new(move |idx, seed| {
            let mut rng = Rng::new(seed);
            let a = cfg.scripted[0].clone();
            // the rung is walked systematically, the rest is seeded
            let pow = 6 + (idx % 15) as u32; // 2^6 .. 2^20
            let target = ((1usize << pow) as i64 + (idx / 15 % 3) as i64 - 1) as usize;
            let len = rng.range(2, 8) as usize;
            let big_at = rng.usize(len);
            let mut stream = Vec::new();
            for i in 0..len {
                if i == big_at || rng.chance(1, 6) {
                    let flags = match rng.below(4) {
                        0 => Flags::MORE,
                        1 => Flags::ONEWAY,
                        _ => Flags::NONE,
                    };
                    let (method, extra) = if rng.chance(1, 3) {
                        (format!("{}.Script", a), Some(json!(["c1", "r", "c0", "r"])))
                    } else if rng.chance(1, 4) {
                        ("org.varlink.service.GetInfo".to_string(), None)
                    } else {
                        (format!("{}.Echo", a), None)
                    };
                    let mk = |pad: usize| {
                        let mut p = json!({"token": format!("h-{}", i), "pad": "p".repeat(pad)});
                        if let Some(sc) = &extra {
                            p["script"] = sc.clone();
                        }
                        frame(&request(&method, Some(p), flags))
                    };
                    let base = mk(0).len();
                    let want = if i == big_at { target } else { (1usize << rng.range(6, 14)) + rng.usize(3) - 1 };
                    stream.extend(mk(want.saturating_sub(base)));
                } else {
                    let k = alphabet::random_kind(&mut rng, &alpha);
                    stream.extend(frame(&build(&cfg, k, &format!("h-{}", i))));
                }
            }
            let mut c = HCase::plain(&cfg, &stream);
            match rng.below(4) {
                0 => {}
                1 => c.cuts = random_cuts_r(&mut rng, stream.len(), 1, 6),
                2 => {
                    let sz = *rng.pick(&[512usize, 4096, 8192, 8191, 65536]);
                    c.cuts = (1..stream.len() / sz + 1).map(|k| k * sz).filter(|x| *x < stream.len()).collect();
                }
                _ => c.read_plan = random_plan_r(&mut rng, 4, 60, 20000),
            }
            if rng.chance(1, 3) {
                c.write_plan = random_plan_r(&mut rng, 4, 60, 20000);
            }
            wrap(c)
        }),
    }
}

pub fn c01_h_spaces(tier: Tier) -> Vec<Space> {
    let cfg = SvcCfg::basic();
    let maxlen = if tier == Tier::Quick { 3 } else { 4 };
    vec![
        seq_space("H.seq.reduced", cfg.clone(), alphabet::reduced(), maxlen, Case::H),
        seq_space("H.seq.full", cfg.clone(), alphabet::full(), 2, Case::H),
        random_seq_space(
            "H.seq.random",
            cfg.clone(),
            if tier == Tier::Quick { 60_000 } else { 2_000_000 },
            false,
            Case::H,
        ),
        long_seq_space("H.seq.long", cfg.clone(), if tier == Tier::Quick { 400 } else { 12_000 }, Case::H),
        size_ladder_space("H.seq.size-ladder", cfg.clone(), if tier == Tier::Quick { 900 } else { 27_000 }, Case::H),
        random_seq_space(
            "H.seq.random.write-error",
            cfg,
            if tier == Tier::Quick { 12_000 } else { 300_000 },
            true,
            Case::H,
        ),
    ]
}

// --- C02 ---------------------------------------------------------------------------------------

fn big_message(cfg: &SvcCfg, total: usize, token: &str) -> Vec<u8> {
    // an Echo request whose framed length (without NUL) is exactly `total`
    let base = frame(&build_echo_pad(cfg, token, 0));
    let pad = total + 1 - base.len();
    let f = frame(&build_echo_pad(cfg, token, pad));
    assert_eq!(f.len(), total + 1);
    f
}
fn build_echo_pad(cfg: &SvcCfg, token: &str, pad: usize) -> Value {
    let a = cfg.scripted[0].clone();
    request(
        &format!("{}.Echo", a),
        Some(json!({"token": token, "pad": "x".repeat(pad)})),
        Flags::NONE,
    )
}

/// the corpus of byte streams whose segmentations C02 enumerates
pub fn c02_streams(tier: Tier) -> Vec<(SvcCfg, Vec<u8>)> {
    let mut v = Vec::new();
    let cfg = SvcCfg::basic();
    let red = alphabet::reduced();
    // all reduced sequences of length 1 and 2
    for a in &red {
        v.push((cfg.clone(), alphabet::stream_of(&cfg, &[*a], "s")));
    }
    let lim = if tier == Tier::Quick { 6 } else { red.len() };
    for a in red.iter().take(lim) {
        for b in &red {
            v.push((cfg.clone(), alphabet::stream_of(&cfg, &[*a, *b], "s")));
        }
    }
    // a long mixed stream
    v.push((
        cfg.clone(),
        alphabet::stream_of(
            &cfg,
            &[
                Kind(Base::Echo, Flags::NONE),
                Kind(Base::Stream2, Flags::MORE),
                Kind(Base::GetInfo, Flags::ONEWAY),
                Kind(Base::MoreTestMore, Flags::MORE),
                Kind(Base::UnknownIface, Flags::NONE),
                Kind(Base::PingOk, Flags::NONE),
            ],
            "s",
        ),
    ));
    // streams ending in an incomplete message
    {
        let mut s = alphabet::stream_of(&cfg, &[Kind(Base::Echo, Flags::NONE), Kind(Base::GetInfo, Flags::NONE)], "s");
        let f = frame(&build(&cfg, Kind(Base::Echo, Flags::NONE), "partial"));
        s.extend_from_slice(&f[..f.len() / 2]);
        v.push((cfg.clone(), s));
    }
    // multi-byte UTF-8 inside requests: every cut point inside a character is a segmentation too
    {
        let a = cfg.scripted[0].clone();
        let mut s = frame(&request(
            &format!("{}.Echo", a),
            Some(json!({"token": "s-0", "text": "é-ß-€-\u{1F600}-z", "ключ": ["值", "\u{10FFFF}"]})),
            Flags::NONE,
        ));
        s.extend(frame(&request(&format!("{}.Ping", PING), Some(json!({"ping": "π∞\u{1F980}"})), Flags::NONE)));
        v.push((cfg.clone(), s));
    }
    // ping-style upgraded protocol: batches of lines ending in "End", the handler returns per batch
    for generated in [false, true] {
        for payload in ["a\nEnd\n", "a\nEnd\nb\nEnd\n", "a\nb\nEnd\nc\nEnd\npartial", "End\nEnd\nx\n"] {
            let mut c = cfg.clone();
            c.upgrade_mode = 3;
            let mut s = alphabet::stream_of(&c, &[Kind(Base::Echo, Flags::NONE)], "u");
            s.extend(frame(&alphabet::upgrade_request(&c, generated, "up")));
            s.extend_from_slice(payload.as_bytes());
            v.push((c, s));
        }
    }
    // a method that upgrades the connection called by a request that does not carry the upgrade flag:
    // it is the implementation's to_upgraded() that switches the connection, the flag is the caller's wish
    for mode in [2u8, 3] {
        let mut c = cfg.clone();
        c.upgrade_mode = mode;
        let a = c.scripted[0].clone();
        let mut s = alphabet::stream_of(&c, &[Kind(Base::Echo, Flags::NONE)], "u");
        s.extend(frame(&request(&format!("{}.Upgrade", a), Some(json!({"token": "up"})), Flags::NONE)));
        s.extend_from_slice(if mode == 3 { &b"a\nEnd\nb\nEnd\n"[..] } else { &b"first line\nsecond line\npart"[..] });
        v.push((c, s));
    }
    // length-prefixed upgraded protocol (one length byte, then that many bytes): the handler peeks,
    // and hands the length byte back when the payload is not complete yet
    {
        let mut c = cfg.clone();
        c.upgrade_mode = 4;
        let mut s = frame(&alphabet::upgrade_request(&c, false, "up"));
        for rec in [&b"abc"[..], b"", b"hello world", b"\0x\n", b"zz"] {
            s.push(rec.len() as u8);
            s.extend_from_slice(rec);
        }
        s.extend_from_slice(&[9, b'p', b'a', b'r']); // an incomplete frame at the end
        v.push((c, s));
    }
    // upgrade request followed directly by 0..300 payload bytes, both handler shapes (and V5, which
    // reads with fill_buf and passes every I/O error on), both kinds of interface
    for mode in [1u8, 2u8, 5u8] {
        for generated in [false, true] {
            for payload_len in [0usize, 1, 7, 40, 300] {
                let mut c = cfg.clone();
                c.upgrade_mode = mode;
                let mut s = alphabet::stream_of(&c, &[Kind(Base::Echo, Flags::NONE)], "u");
                s.extend(frame(&alphabet::upgrade_request(&c, generated, "up")));
                let mut payload = Vec::new();
                let mut i = 0;
                while payload.len() < payload_len {
                    let line = format!("PAYLOAD-{}\n", i);
                    payload.extend_from_slice(line.as_bytes());
                    i += 1;
                }
                payload.truncate(payload_len);
                if mode == 1 && payload_len >= 7 {
                    payload[3] = 0; // a NUL inside the upgraded byte stream is just a byte
                }
                s.extend_from_slice(&payload);
                v.push((c, s));
            }
        }
    }
    v
}

pub fn c02_big_streams() -> Vec<(SvcCfg, Vec<u8>)> {
    let cfg = SvcCfg::basic();
    let mut v = Vec::new();
    for total in [8191usize, 8192, 8193, 20000] {
        let mut s = alphabet::stream_of(&cfg, &[Kind(Base::GetInfo, Flags::NONE)], "b");
        s.extend(big_message(&cfg, total, "big"));
        s.extend(alphabet::stream_of(&cfg, &[Kind(Base::Echo, Flags::NONE)], "after"));
        v.push((cfg.clone(), s));
    }
    // upgrade followed by more than 8 KiB of payload (straddles handle's inner buffer)
    for mode in [1u8, 2u8] {
        let mut c = cfg.clone();
        c.upgrade_mode = mode;
        let mut s = frame(&alphabet::upgrade_request(&c, false, "up"));
        let mut i = 0;
        let mut payload = Vec::new();
        while payload.len() < 9000 {
            payload.extend_from_slice(format!("LINE-{:06}\n", i).as_bytes());
            i += 1;
        }
        s.extend_from_slice(&payload);
        v.push((c, s));
    }
    v.extend(c02_bulk_upgraded_streams(&mut Rng::new(7), 4));
    v
}

/// upgraded connections that carry tens of kilobytes for the two handler shapes that *return* in the
/// middle of the stream: V3 (returns at the end of every batch) and V4 (length-prefixed frames; takes
/// what is buffered for what is available and hands a partial frame back)
pub fn c02_bulk_upgraded_streams(rng: &mut Rng, n: usize) -> Vec<(SvcCfg, Vec<u8>)> {
    let cfg = SvcCfg::basic();
    let mut v = Vec::new();
    for k in 0..n {
        let mut c = cfg.clone();
        let total = rng.range(9_000, 60_000) as usize;
        let mut s = frame(&alphabet::upgrade_request(&c, false, "up"));
        if k % 2 == 0 {
            c.upgrade_mode = 4;
            let fixed = if rng.chance(1, 2) { Some(rng.range(1, 255) as usize) } else { None };
            let mut i = 0u32;
            let mut payload = Vec::new();
            while payload.len() < total {
                let len = fixed.unwrap_or_else(|| rng.range(0, 255) as usize);
                payload.push(len as u8);
                for j in 0..len {
                    payload.push(b'a' + ((i as usize + j) % 26) as u8);
                }
                i += 1;
            }
            s.extend_from_slice(&payload);
        } else {
            c.upgrade_mode = 3;
            let mut i = 0u32;
            let mut payload = Vec::new();
            while payload.len() < total {
                for _ in 0..rng.range(1, 60) {
                    payload.extend_from_slice(format!("LINE-{:06}-{}\n", i, "x".repeat(rng.range(0, 120) as usize)).as_bytes());
                    i += 1;
                }
                payload.extend_from_slice(b"End\n");
            }
            s.extend_from_slice(&payload);
        }
        v.push((c, s));
    }
    v
}

fn interesting_cuts(stream: &[u8]) -> Vec<usize> {
    let mut v: Vec<usize> = Vec::new();
    let (msgs, _) = split_nul(stream);
    let mut pos = 0usize;
    for m in msgs {
        pos += m.len() + 1;
        for d in 0..40usize {
            v.push(pos.saturating_sub(d));
            v.push(pos + d);
        }
    }
    for k in [8192usize, 16384] {
        for d in 0..24usize {
            v.push(k.saturating_sub(d));
            v.push(k + d);
        }
    }
    let mut i = 0;
    while i < stream.len() {
        v.push(i);
        i += 97;
    }
    v.retain(|x| *x > 0 && *x < stream.len());
    v.sort();
    v.dedup();
    v
}

pub fn c02_h_spaces(tier: Tier) -> Vec<Space> {
    let streams = c02_streams(tier);
    let mut spaces = Vec::new();
    // every single cut point (with and without EINTR between chunks)
    {
        let mut offsets = vec![0u64];
        for (_, s) in &streams {
            offsets.push(offsets.last().unwrap() + (s.len() as u64).saturating_sub(1) * 2);
        }
        let total = *offsets.last().unwrap();
        let st = streams.clone();
        spaces.push(Space {
            name: "H.cut.single",
            size: total,
            exhaustive: true,
            gen: Box::new(move |idx, _| {
                let k = offsets.partition_point(|o| *o <= idx) - 1;
                let (cfg, s) = &st[k];
                let local = idx - offsets[k];
                let cut = (local / 2) as usize + 1;
                let mut c = HCase::plain(cfg, s);
                c.cuts = vec![cut];
                if local % 2 == 1 {
                    c.read_plan = vec![0, 3, 0, 1, 0];
                }
                Case::HDiff(c)
            }),
        });
    }
    // every pair of cut points for streams of at most 120 bytes (quick: 90)
    {
        let lim = if tier == Tier::Quick { 90 } else { 120 };
        let short: Vec<(SvcCfg, Vec<u8>)> = streams.iter().filter(|(_, s)| s.len() <= lim && s.len() >= 3).cloned().collect();
        let mut offsets = vec![0u64];
        for (_, s) in &short {
            let n = s.len() as u64 - 1;
            offsets.push(offsets.last().unwrap() + n * (n - 1) / 2);
        }
        let total = *offsets.last().unwrap();
        spaces.push(Space {
            name: "H.cut.pairs",
            size: total,
            exhaustive: true,
            gen: Box::new(move |idx, _| {
                let k = offsets.partition_point(|o| *o <= idx) - 1;
                let (cfg, s) = &short[k];
                let mut local = idx - offsets[k];
                let n = s.len() as u64 - 1;
                // pair (i<j) over 1..=n
                let mut i = 1u64;
                loop {
                    let row = n - i;
                    if local < row {
                        break;
                    }
                    local -= row;
                    i += 1;
                }
                let j = i + 1 + local;
                let mut c = HCase::plain(cfg, s);
                c.cuts = vec![i as usize, j as usize];
                Case::HDiff(c)
            }),
        });
    }
    // one byte at a time
    {
        let st = streams.clone();
        spaces.push(Space {
            name: "H.cut.bytewise",
            size: st.len() as u64,
            exhaustive: true,
            gen: Box::new(move |idx, _| {
                let (cfg, s) = &st[idx as usize];
                let mut c = HCase::plain(cfg, s);
                c.cuts = (1..s.len()).collect();
                Case::HDiff(c)
            }),
        });
    }
    // messages straddling the 8 KiB buffers: cut points around every boundary + a stride
    {
        let big = c02_big_streams();
        let cuts: Vec<Vec<usize>> = big.iter().map(|(_, s)| interesting_cuts(s)).collect();
        let mut offsets = vec![0u64];
        for c in &cuts {
            offsets.push(offsets.last().unwrap() + c.len() as u64);
        }
        let total = *offsets.last().unwrap();
        spaces.push(Space {
            name: "H.cut.big",
            size: total,
            exhaustive: false,
            gen: Box::new(move |idx, _| {
                let k = offsets.partition_point(|o| *o <= idx) - 1;
                let (cfg, s) = &big[k];
                let mut c = HCase::plain(cfg, s);
                c.cuts = vec![cuts[k][(idx - offsets[k]) as usize]];
                Case::HDiff(c)
            }),
        });
    }
    spaces.push(long_seq_space("H.cut.long", SvcCfg::basic(), if tier == Tier::Quick { 300 } else { 8_000 }, Case::HDiff));
    spaces.push(size_ladder_space("H.cut.size-ladder", SvcCfg::basic(), if tier == Tier::Quick { 450 } else { 13_500 }, Case::HDiff));
    // seeded random k-cuts with short reads / EINTR / short writes
    {
        let mut st = streams.clone();
        st.extend(c02_big_streams());
        let n = if tier == Tier::Quick { 20_000 } else { 1_000_000 };
        spaces.push(Space {
            name: "H.cut.random",
            size: n,
            exhaustive: false,
            gen: Box::new(move |_idx, seed| {
                let mut rng = Rng::new(seed);
                let (cfg, s) = &st[rng.usize(st.len())];
                let mut c = HCase::plain(cfg, s);
                c.cuts = random_cuts_r(&mut rng, s.len(), 1, 16);
                if rng.chance(2, 3) {
                    c.read_plan = random_plan_r(&mut rng, 1, 60, 40);
                }
                if rng.chance(1, 2) {
                    c.write_plan = random_plan_r(&mut rng, 1, 30, 40);
                }
                Case::HDiff(c)
            }),
        });
    }
    spaces
}

// --- C03 ---------------------------------------------------------------------------------------

pub const NAME_POOL: &[&str] = &[
    "a.b",
    "a.b.c",
    "a.bc",
    "a.b-c",
    "A.b",
    "a.b1",
    "org.varlink.servic",
    "org.varlink.service.x",
    "a",
    "b.a.b",
    "a.b.Echo",
    "xn--a.b2-c",
    // 300 bytes: longer than any "reasonable" name limit somebody might build in
    "long.aaaaaaaaaaaaaaaaaaaaaaaaaaaaaaaaaaaaaaaaaaaaaaaaaaaaaaaaaaaaaaaaaaaaaaaaaaaaaaaaaaaaaaaaaaaaaaaaaaaaaaaaaaaaaaaaaaaaaaaaaaaaaaaaaaaaaaaaaaaaaaaaaaaaaaaaaaaaaaaaaaaaaaaaaaaaaaaaaaaaaaaaaaaaaaaaaaaaaaaaaaaaaaaaaaaaaaaaaaaaaaaaaaaaaaaaaaaaaaaaaaaaaaaaaaaaaaaaaaaaaaaaaaaaaaaaaaaaaaaaaaaaaaaaaaaaaaaaaaaaaaaaaaaaaaaaaaaaaaaaaaa.b",
];

fn c03_configs() -> Vec<Vec<String>> {
    let mut v: Vec<Vec<String>> = vec![vec![]];
    for a in NAME_POOL {
        v.push(vec![a.to_string()]);
    }
    for (i, a) in NAME_POOL.iter().enumerate() {
        for b in &NAME_POOL[i + 1..] {
            v.push(vec![a.to_string(), b.to_string()]);
        }
    }
    // a few larger ones, in different registration orders
    v.push(NAME_POOL[..5].iter().map(|s| s.to_string()).collect());
    v.push(NAME_POOL[..5].iter().rev().map(|s| s.to_string()).collect());
    v.push(NAME_POOL[3..8].iter().map(|s| s.to_string()).collect());
    // the same name registered more than once (the later registration replaces the earlier one; the
    // name is still one interface): adjacent and with other interfaces in between
    let n = |i: usize| NAME_POOL[i].to_string();
    v.push(vec![n(0), n(0)]);
    v.push(vec![n(0), n(1), n(0)]);
    v.push(vec![n(2), n(0), n(1), n(1), n(2)]);
    v.push(vec![n(3), n(4), n(5), n(3), n(6), n(4), n(3)]);
    v
}

fn c03_methods() -> Vec<String> {
    let mut v: Vec<String> = Vec::new();
    for n in NAME_POOL {
        v.push(format!("{}.Echo", n));
        v.push(format!("{}.Nope", n));
        v.push(n.to_string());
        v.push(format!("{}.", n));
        v.push(format!("{}..Echo", n));
        v.push(format!(".{}.Echo", n));
        v.push(format!("{}.Echo.", n));
        v.push(format!("{}.Echo", &n[..n.len() - 1]));
        v.push(format!("{}x.Echo", n));
        v.push(format!("{}.Fail", n));
        // an implementation that returns an error value without replying
        v.push(format!("{}.ErrReply", n));
    }
    // generated dispatch: a call whose parameters do not fit is answered with InvalidParameter and
    // then fails; unknown methods of a generated interface
    for s in ["org.example.ping.Ping", "org.example.ping.Nope", "org.example.more.TestMore", "org.example.more.Ping"] {
        v.push(s.to_string());
    }
    for s in [
        "",
        ".",
        "..",
        "Echo",
        "org.varlink.service.GetInfo",
        "org.varlink.service.",
        "org.varlink.service.getinfo",
        "org.varlink.service.GetInfo.x",
        "org.varlink.serviceX.GetInfo",
        "org.varlink.service",
        "org.varlink.GetInfo",
    ] {
        v.push(s.to_string());
    }
    v
}

fn c03_params() -> Vec<Option<Value>> {
    vec![
        None,
        Some(json!({})),
        Some(json!({"token": "p", "deep": {"a": [1, 2, {"b": null}], "c": "é\u{1F600}\"\\"}})),
        Some(json!([1, 2])),
        Some(json!("str")),
        Some(json!(5)),
    ]
}

pub fn c03_h_spaces(tier: Tier) -> Vec<Space> {
    let configs = c03_configs();
    let methods = c03_methods();
    let params = c03_params();
    let flagsets = [Flags::NONE, Flags::MORE, Flags {
        more: Some(false),
        oneway: Some(false),
        upgrade: Some(true),
    }];
    let mut spaces = Vec::new();
    {
        let (configs, methods, params) = (configs.clone(), methods.clone(), params.clone());
        let pstride = if tier == Tier::Quick { 2 } else { params.len() * flagsets.len() };
        let size = (configs.len() * methods.len() * pstride) as u64;
        spaces.push(Space {
            name: "H.route.product",
            size,
            exhaustive: tier == Tier::Thorough,
            gen: Box::new(move |idx, _| {
                let idx = idx as usize;
                let ci = idx % configs.len();
                let mi = (idx / configs.len()) % methods.len();
                let pi = idx / configs.len() / methods.len();
                let (p, f) = if pstride == 2 {
                    // quick: a token-bearing object with/without more, the rest rotates with the method index
                    if pi == 0 {
                        (params[2].clone(), flagsets[mi % 3])
                    } else {
                        (params[(mi + ci) % params.len()].clone(), flagsets[(mi + 1) % 3])
                    }
                } else {
                    (params[pi % params.len()].clone(), flagsets[pi / params.len()])
                };
                let mut cfg = SvcCfg::basic();
                cfg.scripted = configs[ci].clone();
                cfg.ping = ci % 2 == 0;
                cfg.more = ci % 3 == 0;
                let mut s = frame(&request(&methods[mi], p, f));
                s.extend(frame(&request("org.varlink.service.GetInfo", None, Flags::NONE)));
                Case::H(HCase::plain(&cfg, &s))
            }),
        });
    }
    // the service interface under every configuration
    {
        let configs = configs.clone();
        let mut targets: Vec<Option<Value>> = vec![None, Some(json!({})), Some(json!({"interface": 3})), Some(json!({"interface": SVC}))];
        for n in NAME_POOL {
            targets.push(Some(json!({ "interface": n })));
        }
        targets.push(Some(json!({ "interface": PING })));
        targets.push(Some(json!({ "interface": MORE })));
        targets.push(Some(json!({"interface": "a.b", "extra": 1})));
        let size = (configs.len() * targets.len()) as u64;
        spaces.push(Space {
            name: "H.service.describe",
            size,
            exhaustive: true,
            gen: Box::new(move |idx, _| {
                let idx = idx as usize;
                let ci = idx % configs.len();
                let ti = idx / configs.len();
                let mut cfg = SvcCfg::basic();
                cfg.scripted = configs[ci].clone();
                cfg.ping = ci % 2 == 1;
                cfg.more = ci % 3 == 1;
                cfg.vendor = format!("vendor-{}", ci);
                cfg.product = "prod \"quoted\" é".into();
                cfg.version = format!("{}.{}", ci, ti);
                cfg.url = "http://example.org/?a=b&c=d".into();
                let mut s = frame(&request(
                    "org.varlink.service.GetInterfaceDescription",
                    targets[ti].clone(),
                    Flags::NONE,
                ));
                s.extend(frame(&request("org.varlink.service.GetInfo", None, Flags::NONE)));
                Case::H(HCase::plain(&cfg, &s))
            }),
        });
    }
    // several service-interface calls on one service object: the same description asked for again,
    // different ones in a row, GetInfo in between (anything remembered from one call must not leak
    // into the next)
    {
        let configs = configs.clone();
        let n = if tier == Tier::Quick { 6_000 } else { 200_000 };
        spaces.push(Space {
            name: "H.service.describe-sequences",
            size: n,
            exhaustive: false,
            gen: Box::new(move |_idx, seed| {
                let mut rng = Rng::new(seed);
                let mut cfg = SvcCfg::basic();
                cfg.scripted = rng.pick(&configs).clone();
                cfg.ping = rng.chance(1, 2);
                cfg.more = rng.chance(1, 2);
                let mut targets: Vec<String> = cfg.scripted.clone();
                targets.push(SVC.to_string());
                targets.push(PING.to_string());
                targets.push(MORE.to_string());
                for _ in 0..2 {
                    targets.push(rng.pick(NAME_POOL).to_string());
                }
                let mut s = Vec::new();
                let mut last: Option<String> = None;
                for i in 0..rng.range(2, 6) {
                    match rng.below(6) {
                        0 => {
                            let f = if rng.chance(1, 4) { Flags::ONEWAY } else { Flags::NONE };
                            s.extend(frame(&request("org.varlink.service.GetInfo", None, f)))
                        }
                        1 => {
                            let t = rng.pick(&targets).clone();
                            s.extend(frame(&request(&format!("{}.Echo", t), Some(json!({"token": format!("d-{}", i)})), Flags::NONE)));
                        }
                        _ => {
                            // now and then the same one again
                            let t = match (&last, rng.chance(1, 3)) {
                                (Some(l), true) => l.clone(),
                                _ => rng.pick(&targets).clone(),
                            };
                            last = Some(t.clone());
                            let f = match rng.below(8) {
                                0 => Flags::MORE,
                                1 | 2 => Flags::ONEWAY,
                                _ => Flags::NONE,
                            };
                            s.extend(frame(&request(
                                "org.varlink.service.GetInterfaceDescription",
                                Some(json!({ "interface": t })),
                                f,
                            )));
                        }
                    }
                }
                // now and then the batch ends in a message the service refuses: what came before it
                // is answered all the same
                if rng.chance(1, 5) {
                    s.extend_from_slice(*rng.pick(&[&b"{\"method\":42}\0"[..], &b"nonsense\0"[..], &b"{\"method\":\"a.b.C\",\"more\":1}\0"[..]]));
                }
                let mut c = HCase::plain(&cfg, &s);
                if rng.chance(1, 3) {
                    c.cuts = random_cuts(&mut rng, s.len(), 3);
                }
                // the writer takes the replies in pieces (short writes, now and then EINTR)
                if rng.chance(1, 3) {
                    c.write_plan = random_plan(&mut rng, 30, 64);
                }
                Case::H(c)
            }),
        });
    }
    // seeded random beyond
    {
        let n = if tier == Tier::Quick { 30_000 } else { 1_000_000 };
        let (configs, methods, params) = (configs, methods, params);
        spaces.push(Space {
            name: "H.route.random",
            size: n,
            exhaustive: false,
            gen: Box::new(move |_idx, seed| {
                let mut rng = Rng::new(seed);
                let mut cfg = SvcCfg::basic();
                let k = rng.usize(6);
                let mut names: Vec<String> = Vec::new();
                for _ in 0..k {
                    let n = rng.pick(NAME_POOL).to_string();
                    // now and then the same name is registered again
                    if !names.contains(&n) || rng.chance(1, 4) {
                        names.push(n);
                    }
                }
                let _ = &configs;
                cfg.scripted = names;
                cfg.ping = rng.chance(1, 2);
                cfg.more = rng.chance(1, 2);
                let mut s = Vec::new();
                for i in 0..rng.range(1, 6) {
                    let m = rng.pick(&methods).clone();
                    let mut p = rng.pick(&params).clone();
                    if let Some(Value::Object(o)) = &mut p {
                        o.insert("token".into(), json!(format!("r-{}", i)));
                    }
                    let f = *rng.pick(&flagsets);
                    s.extend(frame(&request(&m, p, f)));
                }
                let mut c = HCase::plain(&cfg, &s);
                if rng.chance(1, 3) {
                    c.cuts = random_cuts(&mut rng, s.len(), 3);
                }
                if rng.chance(1, 4) {
                    c.write_plan = random_plan(&mut rng, 30, 64);
                }
                Case::H(c)
            }),
        });
    }
    spaces
}

// --- C04 ---------------------------------------------------------------------------------------

pub fn c04_h_spaces(tier: Tier) -> Vec<Space> {
    let cfg = SvcCfg::basic();
    let mut ow: Vec<Kind> = Vec::new();
    for &b in alphabet::ALL_BASES {
        ow.push(Kind(b, Flags::ONEWAY));
        ow.push(Kind(
            b,
            Flags {
                more: Some(true),
                oneway: Some(true),
                upgrade: None,
            },
        ));
    }
    let neigh = vec![
        Kind(Base::GetInfo, Flags::NONE),
        Kind(Base::Echo, Flags::NONE),
        Kind(Base::Stream2, Flags::MORE),
        Kind(Base::UnknownIface, Flags::NONE),
    ];
    let mut spaces = Vec::new();
    // every oneway kind alone, one request per handle call; and the same with an extra 9000-byte
    // member, so that the message is larger than the 8 KiB read buffers
    {
        let (cfg, ow) = (cfg.clone(), ow.clone());
        spaces.push(Space {
            name: "H.oneway.alone",
            size: ow.len() as u64 * 2,
            exhaustive: true,
            gen: Box::new(move |idx, _| {
                let k = ow[(idx / 2) as usize];
                let mut req = build(&cfg, k, "o-0");
                if idx % 2 == 1 {
                    let o = req.as_object_mut().unwrap();
                    let p = o.entry("parameters").or_insert_with(|| json!({}));
                    if let Some(po) = p.as_object_mut() {
                        po.insert("pad".into(), json!("P".repeat(9000)));
                    }
                }
                let mut s = frame(&req);
                s.extend(alphabet::stream_of(&cfg, &[Kind(Base::GetInfo, Flags::NONE)], "after"));
                Case::H(HCase::plain(&cfg, &s))
            }),
        });
    }
    // oneway calls to methods that upgrade the connection (the handler calls to_upgraded() and then
    // replies): still no reply; what follows belongs to the upgraded protocol
    {
        let cfg = cfg.clone();
        // generated? x upgrade flag present? x more flag? x handler shape x with/without a neighbour before x payload
        let size = 2 * 2 * 2 * 3 * 2 * 2;
        spaces.push(Space {
            name: "H.oneway.upgrading-method",
            size,
            exhaustive: true,
            gen: Box::new(move |idx, _| {
                let mut i = idx;
                let generated = i % 2 == 1;
                i /= 2;
                let upflag = i % 2 == 1;
                i /= 2;
                let more = i % 2 == 1;
                i /= 2;
                let mode = (i % 3) as u8 + 1;
                i /= 3;
                let neighbour = i % 2 == 1;
                i /= 2;
                let payload = i % 2 == 1;
                let mut c = cfg.clone();
                c.upgrade_mode = mode;
                let mut s = Vec::new();
                if neighbour {
                    s.extend(alphabet::stream_of(&c, &[Kind(Base::Echo, Flags::NONE)], "o"));
                }
                let mut req = alphabet::upgrade_request(&c, generated, "ow-up");
                let o = req.as_object_mut().unwrap();
                o.insert("oneway".into(), json!(true));
                if !upflag {
                    o.remove("upgrade");
                }
                if more {
                    o.insert("more".into(), json!(true));
                }
                s.extend(frame(&req));
                if payload {
                    s.extend_from_slice(b"x\nEnd\n");
                }
                let mut h = HCase::plain(&c, &s);
                if idx % 3 == 0 {
                    h.cuts = cuts_for_depth(&s, 1);
                }
                Case::H(h)
            }),
        });
    }
    // a oneway kind at every position of every sequence up to length 3 (neighbours from a 4-kind alphabet)
    for len in 2..=3usize {
        let (cfg, ow, neigh) = (cfg.clone(), ow.clone(), neigh.clone());
        let nn = neigh.len().pow(len as u32 - 1);
        let size = (len * ow.len() * nn * 2) as u64;
        spaces.push(Space {
            name: if len == 2 { "H.oneway.pos.len2" } else { "H.oneway.pos.len3" },
            size,
            exhaustive: true,
            gen: Box::new(move |idx, _| {
                let mut i = idx as usize;
                let pipelined = i % 2 == 0;
                i /= 2;
                let pos = i % len;
                i /= len;
                let o = ow[i % ow.len()];
                i /= ow.len();
                let mut kinds = Vec::new();
                for p in 0..len {
                    if p == pos {
                        kinds.push(o);
                    } else {
                        kinds.push(neigh[i % neigh.len()]);
                        i /= neigh.len();
                    }
                }
                let s = alphabet::stream_of(&cfg, &kinds, "o");
                let mut c = HCase::plain(&cfg, &s);
                if !pipelined {
                    c.cuts = cuts_for_depth(&s, 1);
                }
                Case::H(c)
            }),
        });
    }
    // random sequences rich in oneway requests
    {
        let n = if tier == Tier::Quick { 30_000 } else { 1_000_000 };
        let all = alphabet::full();
        spaces.push(Space {
            name: "H.oneway.random",
            size: n,
            exhaustive: false,
            gen: Box::new(move |_idx, seed| {
                let mut rng = Rng::new(seed);
                let len = rng.range(2, 20) as usize;
                let kinds: Vec<Kind> = (0..len)
                    .map(|_| if rng.chance(1, 2) { *rng.pick(&ow) } else { *rng.pick(&all) })
                    .collect();
                let s = alphabet::stream_of(&cfg, &kinds, "o");
                let mut c = HCase::plain(&cfg, &s);
                if rng.chance(1, 2) {
                    c.cuts = random_cuts_r(&mut rng, s.len(), 1, 8);
                }
                if rng.chance(1, 3) {
                    c.write_plan = random_plan(&mut rng, 20, 30);
                }
                Case::H(c)
            }),
        });
    }
    spaces
}

// --- C05 ---------------------------------------------------------------------------------------

pub fn c05_h_spaces(tier: Tier) -> Vec<Space> {
    let cfg = SvcCfg::basic();
    let ops = ["c1", "c0", "r", "e", "r!", "e!", "u"];
    let maxlen = if tier == Tier::Quick { 4 } else { 5 };
    let mut size = 0u64;
    for l in 0..=maxlen {
        size += pow(ops.len() as u64, l);
    }
    // `more` / `oneway` absent, true, and spelled out as false
    let flagsets = [
        Flags::NONE,
        Flags::MORE,
        Flags::ONEWAY,
        Flags { more: Some(true), oneway: Some(true), upgrade: None },
        Flags { more: Some(false), oneway: None, upgrade: None },
        Flags { more: Some(false), oneway: Some(true), upgrade: None },
        Flags { more: Some(true), oneway: Some(false), upgrade: Some(false) },
        Flags { more: Some(false), oneway: Some(false), upgrade: Some(false) },
    ];
    let nflags = flagsets.len() as u64;
    let mut spaces = Vec::new();
    {
        let cfg = cfg.clone();
        spaces.push(Space {
            name: "H.script.all",
            size: size * flagsets.len() as u64,
            exhaustive: true,
            gen: Box::new(move |idx, _| {
                let f = flagsets[(idx % nflags) as usize];
                let mut i = idx / nflags;
                let mut len = 0u32;
                loop {
                    let block = pow(ops.len() as u64, len);
                    if i < block {
                        break;
                    }
                    i -= block;
                    len += 1;
                }
                let mut script = Vec::new();
                for _ in 0..len {
                    script.push(ops[(i % ops.len() as u64) as usize]);
                    i /= ops.len() as u64;
                }
                let a = cfg.scripted[0].clone();
                let mut s = frame(&request(
                    &format!("{}.Script", a),
                    Some(json!({"token": "sc", "script": script})),
                    f,
                ));
                // a follower shows whether the connection is still usable and aligned
                s.extend(frame(&build(&cfg, Kind(Base::Echo, Flags::NONE), "follow")));
                Case::HScript(HCase::plain(&cfg, &s))
            }),
        });
    }
    {
        let n = if tier == Tier::Quick { 20_000 } else { 600_000 };
        spaces.push(Space {
            name: "H.script.random",
            size: n,
            exhaustive: false,
            gen: Box::new(move |_idx, seed| {
                let mut rng = Rng::new(seed);
                let len = rng.range(0, 9) as usize;
                // (the random space also uses the standard error helpers of CallTrait)
                let ops_ext = ["c1", "c0", "r", "e", "r!", "e!", "u", "ei", "em", "en", "ei!", "c1", "r"];
                let script: Vec<&str> = (0..len).map(|_| *rng.pick(&ops_ext)).collect();
                let f = *rng.pick(&flagsets);
                let a = cfg.scripted[0].clone();
                let mut s = frame(&request(
                    &format!("{}.Script", a),
                    Some(json!({"token": "sc", "script": script})),
                    f,
                ));
                for i in 0..rng.range(0, 3) {
                    let k = *rng.pick(&alphabet::reduced());
                    s.extend(frame(&build(&cfg, k, &format!("f{}", i))));
                }
                let mut c = HCase::plain(&cfg, &s);
                if rng.chance(1, 2) {
                    c.cuts = random_cuts(&mut rng, s.len(), 4);
                }
                if rng.chance(1, 2) {
                    c.write_plan = random_plan(&mut rng, 30, 20);
                }
                Case::HScript(c)
            }),
        });
    }
    spaces
}

// --- C06 ---------------------------------------------------------------------------------------

pub fn c06_victims_pub(cfg: &SvcCfg) -> Vec<Vec<u8>> {
    c06_victims(cfg)
}

fn c06_victims(cfg: &SvcCfg) -> Vec<Vec<u8>> {
    let a = cfg.scripted[0].clone();
    vec![
        frame(&request(
            &format!("{}.Echo", a),
            Some(json!({"token": "victim", "n": [1, -2.5e3, true, null], "s": "é\"x"})),
            Flags::MORE,
        )),
        frame(&request(
            "org.varlink.service.GetInterfaceDescription",
            Some(json!({ "interface": a })),
            Flags::NONE,
        )),
        frame(&request(
            &format!("{}.Script", a),
            Some(json!({"token": "victim", "script": ["c1", "r", "c0", "r"]})),
            Flags {
                more: Some(true),
                oneway: Some(false),
                upgrade: None,
            },
        )),
        frame(&request(&format!("{}.Ping", PING), Some(json!({"ping": "victim"})), Flags::NONE)),
    ]
}

fn c06_stream(cfg: &SvcCfg, victim: &[u8]) -> (Vec<u8>, usize) {
    let mut s = alphabet::stream_of(cfg, &[Kind(Base::Echo, Flags::NONE), Kind(Base::GetInfo, Flags::NONE)], "pre");
    let at = s.len();
    s.extend_from_slice(victim);
    s.extend(alphabet::stream_of(cfg, &[Kind(Base::Echo, Flags::NONE)], "post"));
    (s, at)
}

/// paths to every JSON value node of a request object
fn value_paths(v: &Value, cur: &mut Vec<String>, out: &mut Vec<Vec<String>>) {
    out.push(cur.clone());
    match v {
        Value::Object(o) => {
            for (k, x) in o {
                cur.push(k.clone());
                value_paths(x, cur, out);
                cur.pop();
            }
        }
        Value::Array(a) => {
            for (i, x) in a.iter().enumerate() {
                cur.push(format!("#{}", i));
                value_paths(x, cur, out);
                cur.pop();
            }
        }
        _ => {}
    }
}
fn set_path(v: &mut Value, path: &[String], new: Value) {
    if path.is_empty() {
        *v = new;
        return;
    }
    let k = &path[0];
    match v {
        Value::Object(o) => {
            if let Some(x) = o.get_mut(k) {
                set_path(x, &path[1..], new);
            }
        }
        Value::Array(a) => {
            if let Some(i) = k.strip_prefix('#').and_then(|s| s.parse::<usize>().ok()) {
                if let Some(x) = a.get_mut(i) {
                    set_path(x, &path[1..], new);
                }
            }
        }
        _ => {}
    }
}

pub fn nested(depth: usize, object: bool) -> String {
    let mut s = String::new();
    for _ in 0..depth {
        s.push_str(if object { "{\"k\":" } else { "[" });
    }
    s.push('1');
    for _ in 0..depth {
        s.push(if object { '}' } else { ']' });
    }
    s
}

pub const NEST_DEPTHS: &[usize] = &[1, 2, 3, 10, 50, 62, 63, 64, 65, 100, 126, 127, 128, 129, 200, 1000, 10000];

pub fn c06_h_spaces(tier: Tier) -> Vec<Space> {
    let cfg = SvcCfg::basic();
    let victims = c06_victims(&cfg);
    let mut spaces = Vec::new();
    // every truncation point of each corpus stream
    {
        let streams: Vec<Vec<u8>> = victims.iter().map(|v| c06_stream(&cfg, v).0).collect();
        let mut offsets = vec![0u64];
        for s in &streams {
            offsets.push(offsets.last().unwrap() + s.len() as u64);
        }
        let cfg = cfg.clone();
        spaces.push(Space {
            name: "H.malformed.truncate",
            size: *offsets.last().unwrap(),
            exhaustive: true,
            gen: Box::new(move |idx, _| {
                let k = offsets.partition_point(|o| *o <= idx) - 1;
                let cut = (idx - offsets[k]) as usize;
                Case::H(HCase::plain(&cfg, &streams[k][..cut]))
            }),
        });
    }
    // per-position byte operators on the victim
    {
        const OPS: usize = 7; // flip low bit, flip high bit, delete, duplicate, insert NUL, insert 0xFF, replace by '"'
        let mut offsets = vec![0u64];
        for v in &victims {
            offsets.push(offsets.last().unwrap() + (v.len() * OPS) as u64);
        }
        let (cfg, victims) = (cfg.clone(), victims.clone());
        spaces.push(Space {
            name: "H.malformed.byteops",
            size: *offsets.last().unwrap(),
            exhaustive: true,
            gen: Box::new(move |idx, _| {
                let k = offsets.partition_point(|o| *o <= idx) - 1;
                let local = (idx - offsets[k]) as usize;
                let pos = local / OPS;
                let op = local % OPS;
                let mut v = victims[k].clone();
                match op {
                    0 => v[pos] ^= 1 << (pos % 7),
                    1 => v[pos] ^= 0x80,
                    2 => {
                        v.remove(pos);
                    }
                    3 => {
                        let b = v[pos];
                        v.insert(pos, b);
                    }
                    4 => v.insert(pos, 0),
                    5 => v.insert(pos, 0xFF),
                    _ => v[pos] = b'"',
                }
                let (s, _) = c06_stream(&cfg, &v);
                let mut c = HCase::plain(&cfg, &s);
                if idx % 3 == 0 {
                    c.cuts = cuts_for_depth(&s, 1);
                }
                Case::H(c)
            }),
        });
    }
    // replace every JSON value of the victim by every other JSON type
    {
        let repl: Vec<Value> = vec![json!(null), json!(true), json!(7), json!(1.5), json!("s"), json!([]), json!({}), json!([{"a": []}])];
        let mut cases: Vec<(usize, Vec<String>, usize)> = Vec::new();
        for (k, v) in victims.iter().enumerate() {
            let val: Value = serde_json::from_slice(&v[..v.len() - 1]).unwrap();
            let mut paths = Vec::new();
            value_paths(&val, &mut Vec::new(), &mut paths);
            for p in paths {
                for r in 0..repl.len() {
                    cases.push((k, p.clone(), r));
                }
            }
        }
        let (cfg, victims) = (cfg.clone(), victims.clone());
        spaces.push(Space {
            name: "H.malformed.retype",
            size: cases.len() as u64,
            exhaustive: true,
            gen: Box::new(move |idx, _| {
                let (k, path, r) = &cases[idx as usize];
                let v = &victims[*k];
                let mut val: Value = serde_json::from_slice(&v[..v.len() - 1]).unwrap();
                set_path(&mut val, path, repl[*r].clone());
                let (s, _) = c06_stream(&cfg, &frame(&val));
                Case::H(HCase::plain(&cfg, &s))
            }),
        });
    }
    // nesting depth 1..10^4 (arrays and objects, inside parameters and as the whole message), 1 MiB string,
    // empty message, whitespace-only message
    {
        let cfg2 = cfg.clone();
        let a = cfg.scripted[0].clone();
        let mut msgs: Vec<Vec<u8>> = Vec::new();
        let depths: Vec<usize> = if tier == Tier::Quick {
            NEST_DEPTHS.iter().copied().filter(|d| *d <= 1000).collect()
        } else {
            NEST_DEPTHS.to_vec()
        };
        for d in depths {
            for obj in [false, true] {
                let mut m = format!(
                    "{{\"method\":\"{}.Echo\",\"parameters\":{{\"token\":\"deep\",\"v\":{}}}}}",
                    a,
                    nested(d, obj)
                )
                .into_bytes();
                m.push(0);
                msgs.push(m);
                let mut m = nested(d, obj).into_bytes();
                m.push(0);
                msgs.push(m);
            }
        }
        let mut m = format!(
            "{{\"method\":\"{}.Echo\",\"parameters\":{{\"token\":\"big\",\"v\":\"{}\"}}}}",
            a,
            "y".repeat(1 << 20)
        )
        .into_bytes();
        m.push(0);
        msgs.push(m);
        msgs.push(vec![0]);
        msgs.push(b"   \n\t \0".to_vec());
        msgs.push(b"null\0".to_vec());
        msgs.push(b"\"method\"\0".to_vec());
        msgs.push(b"{\"method\":null}\0".to_vec());
        msgs.push(b"{\"method\":\"org.varlink.service.GetInfo\",\"more\":\"yes\"}\0".to_vec());
        msgs.push(b"{\"method\":\"org.varlink.service.GetInfo\",\"oneway\":1}\0".to_vec());
        msgs.push(b"{\"method\":\"org.varlink.service.GetInfo\",\"upgrade\":[]}\0".to_vec());
        msgs.push(b"{\"method\":\"org.varlink.service.GetInfo\"}{\"method\":\"org.varlink.service.GetInfo\"}\0".to_vec());
        msgs.push(b"{\"method\":\"org.varlink.service.GetInfo\"} trailing\0".to_vec());
        msgs.push(b"{\"method\":\"org.varlink.service.GetInfo\",}\0".to_vec());
        msgs.push(b"{\"method\":\"org.varlink.service.GetInfo\",\"parameters\":1e999}\0".to_vec());
        msgs.push(b"{\"method\":\"org.varlink.service.GetInfo\",\"method\":\"x.y\"}\0".to_vec());
        msgs.push(b"\xEF\xBB\xBF{\"method\":\"org.varlink.service.GetInfo\"}\0".to_vec());
        msgs.push(b"{\"method\":\"org.varlink.service.Get\xC3\x28Info\"}\0".to_vec());
        // invalid UTF-8 inside a member the request type does not know (and serde therefore skips)
        msgs.push(b"{\"method\":\"org.varlink.service.GetInfo\",\"x\":\"\xff\"}\0".to_vec());
        msgs.push(b"{\"comment\":\"caf\xe9\",\"method\":\"org.varlink.service.GetInfo\"}\0".to_vec());
        {
            // the same in a message larger than the read buffers
            let mut m = b"{\"method\":\"org.varlink.service.GetInfo\",\"x\":\"".to_vec();
            m.extend(std::iter::repeat(b'y').take(9000));
            m.extend_from_slice(b"\xff\"}\0");
            msgs.push(m);
        }
        spaces.push(Space {
            name: "H.malformed.special",
            size: msgs.len() as u64 * 2,
            exhaustive: true,
            gen: Box::new(move |idx, _| {
                let (s, _) = c06_stream(&cfg2, &msgs[(idx / 2) as usize]);
                let mut c = HCase::plain(&cfg2, &s);
                if idx % 2 == 1 {
                    c.cuts = (1..s.len().min(400)).step_by(7).collect();
                }
                Case::H(c)
            }),
        });
    }
    // random byte strings and random multi-byte mutations
    {
        let n = if tier == Tier::Quick { 60_000 } else { 2_000_000 };
        let (cfg, victims) = (cfg.clone(), victims.clone());
        spaces.push(Space {
            name: "H.malformed.random",
            size: n,
            exhaustive: false,
            gen: Box::new(move |_idx, seed| {
                let mut rng = Rng::new(seed);
                let victim: Vec<u8> = if rng.chance(1, 3) {
                    let len = rng.range(0, 200) as usize;
                    let mut v: Vec<u8> = (0..len)
                        .map(|_| {
                            if rng.chance(1, 3) {
                                *rng.pick(b"{}[]\":,\\ntfu0123456789.-eE \x00")
                            } else {
                                rng.below(256) as u8
                            }
                        })
                        .collect();
                    v.push(0);
                    v
                } else {
                    let mut v = rng.pick(&victims).clone();
                    for _ in 0..rng.range(1, 4) {
                        if v.len() < 2 {
                            break;
                        }
                        let pos = rng.usize(v.len() - 1);
                        match rng.below(5) {
                            0 => v[pos] = rng.below(256) as u8,
                            1 => {
                                v.remove(pos);
                            }
                            2 => v.insert(pos, rng.below(256) as u8),
                            3 => {
                                let end = (pos + rng.range(1, 12) as usize).min(v.len() - 1);
                                let chunk: Vec<u8> = v[pos..end].to_vec();
                                for (i, b) in chunk.into_iter().enumerate() {
                                    v.insert(pos + i, b);
                                }
                            }
                            _ => v.truncate(pos + 1),
                        }
                    }
                    if v.last() != Some(&0) && rng.chance(3, 4) {
                        v.push(0);
                    }
                    v
                };
                let (s, _) = c06_stream(&cfg, &victim);
                let mut c = HCase::plain(&cfg, &s);
                if rng.chance(1, 2) {
                    c.cuts = random_cuts_r(&mut rng, s.len(), 1, 6);
                }
                if rng.chance(1, 3) {
                    c.read_plan = random_plan(&mut rng, 30, 50);
                }
                Case::H(c)
            }),
        });
    }
    spaces
}

// ---------------------------------------------------------------------------------------------

pub fn plan_for(prop: &str, tier: Tier) -> Option<Plan> {
    let lv_expl = "exploration";
    let lv_fault = "fault_enumeration";
    Some(match prop {
        "C01" => {
            let mut sp = c01_h_spaces(tier);
            sp.extend(crate::lsim::c01_spaces(tier));
            let mut p = h_plan(
                sp,
                "H: every request sequence over a 12-kind reduced alphabet up to length 3 (quick) / 4 (thorough) and over the full alphabet (kinds x flag sets) up to length 2, each at every pipelining depth 1..len (complete enumeration), plus seeded random sequences of length 5..40 with random depth / byte cuts / short reads / EINTR / short writes, long histories of 150..1200 requests with payloads of 0..4000 bytes (whole, random cuts, fixed-size chunks of 512..10000 bytes, short reads), plus a separate write-error (EPIPE at a random offset) batch with prefix-consistency only; L: the same alphabets over the real listen loop on the simulated socket under seeded schedules. A case is distinct by the hash of its explicit form (stream, cuts, I/O plan, schedule seed) and non-trivial when it has >= 2 messages, a cut, an I/O plan entry, a malformed/gray message or an upgrade.",
                lv_expl,
            );
            p.real.extend(crate::lsim::REAL_L);
            p.stub.extend(crate::lsim::STUB_L);
            p
        }
        "C02" => {
            let mut sp = c02_h_spaces(tier);
            sp.extend(crate::lsim::c02_spaces(tier));
            let mut p = h_plan(
                sp,
                "Differential (one piece vs segmented, same service object) plus model oracle. Corpus: all reduced-alphabet sequences of length 1-2, a mixed long stream, a stream ending in an incomplete message, upgrade request + 0..300 payload bytes (both handler shapes, hand-written and generated interface), messages of 8191/8192/8193/20000 bytes, upgrade + 9000 payload bytes. Segmentations: every single cut point (with and without EINTR/short reads after the cut), every pair of cut points for streams <= 90 (quick) / 120 (thorough) bytes, one byte at a time, boundary-focused cuts for the big streams, seeded random k-cuts with short reads / EINTR / short writes; L: the same segments as delivery schedules over the simulated socket. Distinct = hash of explicit case; non-trivial = at least one cut or I/O plan entry.",
                lv_fault,
            );
            p.real.extend(crate::lsim::REAL_L);
            p.stub.extend(crate::lsim::STUB_L);
            p
        }
        "C03" => {
            let mut sp = c03_h_spaces(tier);
            sp.extend(crate::lsim::c03_spaces(tier));
            let mut p = h_plan(
                sp,
                "Services with 0..5 scripted interfaces drawn from a 12-name pool built for confusion (shared prefixes, differing last element, hyphens, digits, upper case, near-misses of org.varlink.service) x ~130 method strings (registered, unregistered, prefix/suffix of a registered name, empty elements, leading/trailing/double dots, no dot) x parameter values x flag sets: systematic product for all configurations of size <= 2 plus larger ones, the service interface (GetInfo / GetInterfaceDescription for every pool name, built-in, unknown, missing, ill-typed) under every configuration, and seeded random multi-request streams. Oracle: exact canonical JSON from the reference model and equality of the calls recorded by the scripted interfaces with the calls the requests imply. Schedule/segmentation adds nothing to this property (stated in DESIGN.md); it is decided as the content clause of the simulated runs.",
                lv_expl,
            );
            p.real.extend(crate::lsim::REAL_L);
            p.stub.extend(crate::lsim::STUB_L);
            p
        }
        "C04" => {
            let mut sp = c04_h_spaces(tier);
            sp.extend(crate::ksim::c04_spaces(tier));
            sp.extend(crate::lsim::c04_l_spaces(tier));
            sp.extend(crate::lsim::c04_stop_spaces(tier));
            sp.extend(crate::lsim::c04_k2_spaces(tier));
            let mut p = h_plan(
                sp,
                "H: every request kind with oneway:true (alone and with more:true) alone, and at every position of every sequence up to length 3 with neighbours from a 4-kind alphabet, pipelined and one per handle call (complete), oneway calls to methods that upgrade the connection (hand-written and generated, with / without the upgrade and more flags, three handler shapes), plus seeded random oneway-rich sequences; L: raw oneway-rich streams through the real listen loop; K1: the real client against a scripted server (every pattern of oneway()/call() up to 6 operations, 1..3 threads); K2: a real MethodCall client against the real listen loop over the simulated socket, every pattern of oneway()/call() up to 5 (quick) / 6 (thorough) operations over seven request kinds, plus random mixes of call / more / oneway from 1..3 real clients beside a raw peer. Oracle: no reply bytes for a oneway request (reply stream aligned with the non-oneway requests, attribution by token), client call after oneway returns its own token.",
                lv_expl,
            );
            p.real.extend(crate::ksim::REAL_K);
            p.stub.extend(crate::ksim::STUB_K);
            p.real.extend(crate::lsim::REAL_L);
            p.stub.extend(crate::lsim::STUB_L);
            p
        }
        "C05" => {
            let mut sp = c05_h_spaces(tier);
            sp.extend(crate::ksim::c05_spaces(tier));
            sp.extend(crate::lsim::c05_l_spaces(tier));
            let mut p = h_plan(
                sp,
                "H: every script over {set_continues(true), set_continues(false), reply, reply_error, reply-ignoring-the-result, reply_error-ignoring-the-result, to_upgraded()} up to length 4 (quick) / 5 (thorough) x request flags {none, more, oneway, more+oneway, more:false, more:false+oneway, more with the other flags spelled out as false, all three false}, followed by a normal request (complete), plus seeded random longer scripts with followers, cuts and short writes. Oracle: wire equals the model (continues only when more was asked; a gated reply writes nothing) and every reply call returned CallContinuesMismatch exactly when gated. K: scripted server reply streams (k continues, then result or error) against the real client iterator, followed by further calls.",
                lv_expl,
            );
            p.real.extend(crate::ksim::REAL_K);
            p.stub.extend(crate::ksim::STUB_K);
            p.real.extend(crate::lsim::REAL_L);
            p.stub.extend(crate::lsim::STUB_L);
            p
        }
        "C06" => {
            let mut sp = c06_h_spaces(tier);
            sp.extend(crate::lsim::c06_spaces(tier));
            let mut p = h_plan(
                sp,
                "Corpus streams (2 well-formed requests, a victim, 1 follower; 4 victims) x every truncation point, x 7 byte operators at every victim position (bit flip low/high, delete, duplicate, insert NUL, insert 0xFF, replace by quote), x replacement of every JSON value node by 8 values of other types, nesting depths 1..10^4 (arrays/objects, in parameters and as whole message), 1 MiB string, empty / whitespace / scalar messages, wrong flag types, duplicate members, BOM, invalid UTF-8 (complete for the corpus), plus seeded random byte strings and multi-byte mutations. Each message is classified independently of varlink::Request (malformed / well-formed / gray: both outcomes accepted). L: the faulty connection beside healthy ones on the real listen loop.",
                lv_fault,
            );
            p.real.extend(crate::lsim::REAL_L);
            p.stub.extend(crate::lsim::STUB_L);
            p.assumptions.push("nesting deeper than 64 and duplicate / unknown / null members are gray: answered or rejected, never a panic".into());
            p
        }
        "C07" => crate::ksim::c07_plan(tier),
        "C13" => crate::lsim::c13_plan(tier),
        "C14" => crate::psim::c14_plan(tier),
        "C15" => crate::lsim::c15_plan(tier),
        "C19" => crate::qsim::c19_plan(tier),
        _ => return None,
    })
}

pub fn dummy() -> Bytes {
    Bytes::Utf8(String::new())
}
