//! The request alphabet shared by the in-memory (H) and socket (L) scenarios.

use serde_json::{json, Map, Value};

use crate::model::{SvcCfg, MORE, PING, SVC};
use crate::rng::Rng;

#[derive(Clone, Copy, Debug, PartialEq, Default)]
pub struct Flags {
    pub more: Option<bool>,
    pub oneway: Option<bool>,
    pub upgrade: Option<bool>,
}
impl Flags {
    pub const NONE: Flags = Flags {
        more: None,
        oneway: None,
        upgrade: None,
    };
    pub const MORE: Flags = Flags {
        more: Some(true),
        oneway: None,
        upgrade: None,
    };
    pub const ONEWAY: Flags = Flags {
        more: None,
        oneway: Some(true),
        upgrade: None,
    };
}

pub fn request(method: &str, params: Option<Value>, f: Flags) -> Value {
    let mut m = Map::new();
    m.insert("method".into(), json!(method));
    if let Some(p) = params {
        m.insert("parameters".into(), p);
    }
    if let Some(b) = f.more {
        m.insert("more".into(), json!(b));
    }
    if let Some(b) = f.oneway {
        m.insert("oneway".into(), json!(b));
    }
    if let Some(b) = f.upgrade {
        m.insert("upgrade".into(), json!(b));
    }
    Value::Object(m)
}

pub fn frame(v: &Value) -> Vec<u8> {
    let mut b = serde_json::to_vec(v).unwrap();
    b.push(0);
    b
}

#[derive(Clone, Copy, Debug, PartialEq, Eq, Hash, PartialOrd, Ord)]
pub enum Base {
    GetInfo,
    DescRegistered,
    DescService,
    DescUnknown,
    DescNoParams,
    DescIllTyped,
    SvcUnknownMethod,
    Echo,
    Fail,
    Stream2,
    StreamErrEnd,
    ScriptGatedIgnore,
    ScriptedUnknownMethod,
    UnknownIface,
    PrefixIface,
    NoDot,
    EmptyMethod,
    LeadingDot,
    TrailingDot,
    DoubleDot,
    PingOk,
    PingNoParams,
    PingBadType,
    PingMissingField,
    MoreTestMore,
    MorePing,
    HandlerErr,
    StreamHelperMid,
    StreamLeftOpen,
}

pub const ALL_BASES: &[Base] = &[
    Base::GetInfo,
    Base::DescRegistered,
    Base::DescService,
    Base::DescUnknown,
    Base::DescNoParams,
    Base::DescIllTyped,
    Base::SvcUnknownMethod,
    Base::Echo,
    Base::Fail,
    Base::Stream2,
    Base::StreamErrEnd,
    Base::ScriptGatedIgnore,
    Base::ScriptedUnknownMethod,
    Base::UnknownIface,
    Base::PrefixIface,
    Base::NoDot,
    Base::EmptyMethod,
    Base::LeadingDot,
    Base::TrailingDot,
    Base::DoubleDot,
    Base::PingOk,
    Base::PingNoParams,
    Base::PingBadType,
    Base::PingMissingField,
    Base::MoreTestMore,
    Base::MorePing,
    Base::HandlerErr,
    Base::StreamHelperMid,
    Base::StreamLeftOpen,
];

/// a request kind = base behaviour + flags
#[derive(Clone, Copy, Debug, PartialEq)]
pub struct Kind(pub Base, pub Flags);

pub fn build(cfg: &SvcCfg, k: Kind, token: &str) -> Value {
    let a = cfg.scripted.first().cloned().unwrap_or_else(|| "org.sim.a".into());
    let Kind(b, f) = k;
    match b {
        Base::GetInfo => request(&format!("{}.GetInfo", SVC), None, f),
        Base::DescRegistered => request(
            &format!("{}.GetInterfaceDescription", SVC),
            Some(json!({ "interface": a })),
            f,
        ),
        Base::DescService => request(
            &format!("{}.GetInterfaceDescription", SVC),
            Some(json!({ "interface": SVC })),
            f,
        ),
        Base::DescUnknown => request(
            &format!("{}.GetInterfaceDescription", SVC),
            Some(json!({"interface": "org.sim.nowhere"})),
            f,
        ),
        Base::DescNoParams => request(&format!("{}.GetInterfaceDescription", SVC), None, f),
        Base::DescIllTyped => request(
            &format!("{}.GetInterfaceDescription", SVC),
            Some(json!({"interface": 7})),
            f,
        ),
        Base::SvcUnknownMethod => request(&format!("{}.Nope", SVC), Some(json!({ "token": token })), f),
        Base::Echo => request(
            &format!("{}.Echo", a),
            Some(json!({"token": token, "x": [1, "two", null, {"k": 3.5}]})),
            f,
        ),
        Base::Fail => request(&format!("{}.Fail", a), Some(json!({ "token": token })), f),
        Base::Stream2 => request(
            &format!("{}.Script", a),
            Some(json!({"token": token, "script": ["c1", "r", "r", "c0", "r"]})),
            f,
        ),
        Base::StreamErrEnd => request(
            &format!("{}.Script", a),
            Some(json!({"token": token, "script": ["c1", "r", "c0", "e"]})),
            f,
        ),
        // the standard error helpers of CallTrait used in mid-stream: the stream goes on behind them
        Base::StreamHelperMid => request(
            &format!("{}.Script", a),
            Some(json!({"token": token, "script": ["c1", "r", "ei", "r", "em", "c0", "r"]})),
            f,
        ),
        // an implementation that announces more replies and returns without a final one
        Base::StreamLeftOpen => request(
            &format!("{}.Script", a),
            Some(json!({"token": token, "script": ["c1", "r"]})),
            f,
        ),
        Base::ScriptGatedIgnore => request(
            &format!("{}.Script", a),
            Some(json!({"token": token, "script": ["c1", "r!", "c0", "r"]})),
            f,
        ),
        Base::ScriptedUnknownMethod => request(&format!("{}.Nope", a), Some(json!({ "token": token })), f),
        Base::UnknownIface => request("org.sim.nowhere.Echo", Some(json!({ "token": token })), f),
        Base::PrefixIface => {
            // the registered name minus its last character: must not be routed to the registered interface
            let p = &a[..a.len() - 1];
            request(&format!("{}.Echo", p), Some(json!({ "token": token })), f)
        }
        Base::NoDot => request("NoDotMethod", Some(json!({ "token": token })), f),
        Base::EmptyMethod => request("", Some(json!({ "token": token })), f),
        Base::LeadingDot => request(".Echo", Some(json!({ "token": token })), f),
        Base::TrailingDot => request(&format!("{}.", a), Some(json!({ "token": token })), f),
        Base::DoubleDot => request(&format!("{}..Echo", a), Some(json!({ "token": token })), f),
        Base::PingOk => request(&format!("{}.Ping", PING), Some(json!({ "ping": token })), f),
        Base::PingNoParams => request(&format!("{}.Ping", PING), None, f),
        Base::PingBadType => request(&format!("{}.Ping", PING), Some(json!({"ping": 12})), f),
        Base::PingMissingField => request(&format!("{}.Ping", PING), Some(json!({ "pong": token })), f),
        Base::MoreTestMore => request(&format!("{}.TestMore", MORE), Some(json!({"n": 3})), f),
        Base::MorePing => request(&format!("{}.Ping", MORE), Some(json!({ "ping": token })), f),
        Base::HandlerErr => request(&format!("{}.ErrReply", a), Some(json!({ "token": token })), f),
    }
}

/// upgrade requests (kept apart: they end the varlink part of a stream)
pub fn upgrade_request(cfg: &SvcCfg, generated: bool, token: &str) -> Value {
    if generated {
        request(
            &format!("{}.Upgrade", PING),
            None,
            Flags {
                upgrade: Some(true),
                ..Flags::NONE
            },
        )
    } else {
        let a = cfg.scripted.first().cloned().unwrap_or_else(|| "org.sim.a".into());
        request(
            &format!("{}.Upgrade", a),
            Some(json!({ "token": token })),
            Flags {
                upgrade: Some(true),
                ..Flags::NONE
            },
        )
    }
}

/// the 12-kind reduced alphabet used for exhaustive sequence enumeration
pub fn reduced() -> Vec<Kind> {
    vec![
        Kind(Base::GetInfo, Flags::NONE),
        Kind(Base::GetInfo, Flags::ONEWAY),
        Kind(Base::Echo, Flags::NONE),
        Kind(Base::Echo, Flags::ONEWAY),
        Kind(Base::Fail, Flags::NONE),
        Kind(Base::Stream2, Flags::MORE),
        Kind(Base::Stream2, Flags::NONE),
        Kind(Base::ScriptedUnknownMethod, Flags::NONE),
        Kind(Base::UnknownIface, Flags::NONE),
        Kind(Base::NoDot, Flags::NONE),
        Kind(Base::PingBadType, Flags::NONE),
        Kind(Base::DescNoParams, Flags::NONE),
    ]
}

/// the full alphabet: every base with no flags, more, oneway, more+oneway, and explicit false flags
pub fn full() -> Vec<Kind> {
    let mut v = Vec::new();
    for &b in ALL_BASES {
        v.push(Kind(b, Flags::NONE));
        v.push(Kind(b, Flags::MORE));
        v.push(Kind(b, Flags::ONEWAY));
    }
    for &b in &[
        Base::GetInfo,
        Base::Echo,
        Base::Stream2,
        Base::NoDot,
        Base::UnknownIface,
        Base::PingOk,
        Base::StreamLeftOpen,
        Base::StreamHelperMid,
    ] {
        v.push(Kind(
            b,
            Flags {
                more: Some(true),
                oneway: Some(true),
                upgrade: None,
            },
        ));
        v.push(Kind(
            b,
            Flags {
                more: Some(false),
                oneway: Some(false),
                upgrade: Some(false),
            },
        ));
    }
    // the upgrade flag on calls that do not upgrade (answered, refused, unknown): the flag alone
    // must not change what happens to the connection
    for &b in &[
        Base::GetInfo,
        Base::Echo,
        Base::Fail,
        Base::UnknownIface,
        Base::ScriptedUnknownMethod,
        Base::PingBadType,
        Base::NoDot,
    ] {
        v.push(Kind(
            b,
            Flags {
                more: None,
                oneway: None,
                upgrade: Some(true),
            },
        ));
    }
    v
}

pub fn random_kind(rng: &mut Rng, all: &[Kind]) -> Kind {
    *rng.pick(all)
}

pub fn stream_of(cfg: &SvcCfg, kinds: &[Kind], conn: &str) -> Vec<u8> {
    let mut s = Vec::new();
    for (i, k) in kinds.iter().enumerate() {
        s.extend(frame(&build(cfg, *k, &format!("{}-{}", conn, i))));
    }
    s
}
