//! A `Case` is one fully explicit simulated run: everything the run needs (configuration, request
//! bytes, segmentation, fault plan, schedule seed / recorded choices). It is what a replay file
//! contains; `eval` is a pure function of it and of the code in /repo.

use serde_derive::{Deserialize, Serialize};
use serde_json::{json, Value};

use crate::hsim::{run_h, run_h_with, Bytes, HCase, HEnd, HObs};
use crate::model::{model_stream, split_nul, Class, End};
use crate::oracle::{check_stream, viol, ObsEnd, StreamObs, Violation};
use crate::report::RunResult;
use crate::rng::Fnv;
use crate::svc::{build_service, new_rec};

#[derive(Clone, Debug, Serialize, Deserialize)]
pub enum Case {
    /// in-memory handler, model oracle
    H(HCase),
    /// in-memory handler, differential oracle: `seg` (a segmentation + I/O plan) against the same
    /// stream fed in one piece
    HDiff(HCase),
    /// in-memory handler, C05 script oracle on the first message (a Script request)
    HScript(HCase),
    L(crate::lsim::LCase),
    /// socket path, differential oracle: the scripted segmentation of the single connection's stream
    /// against the same stream sent in one segment
    LDiff(crate::lsim::LCase),
    P(crate::psim::PCase),
    K(crate::ksim::KCase),
    Q(crate::qsim::QCase),
    /// not a simulation: `Listener::new` / `Drop` on the real filesystem (C15's socket-path clause)
    Fs(u8),
}

pub fn case_sig(c: &Case) -> u64 {
    let mut f = Fnv::new();
    f.str(&serde_json::to_string(c).unwrap());
    f.0
}

pub fn obs_of_h<'a>(case: &HCase, o: &'a HObs) -> StreamObs<'a> {
    let end = match &o.end {
        HEnd::Ok { tail, iface } => ObsEnd::Open {
            tail: Some(tail.clone()),
            iface: iface.clone(),
        },
        HEnd::Err { kind, .. } => ObsEnd::Closed { kind: kind.clone() },
    };
    let dispatches = {
        let r = o.rec.lock().unwrap_or_else(|e| e.into_inner());
        r.calls.clone()
    };
    StreamObs {
        wire: &o.wire,
        end,
        panicked: o.panicked.clone(),
        upgraded_record: Some(o.upgraded_record.clone()),
        dispatches: Some(dispatches),
        socket: false,
        faulted: case.has_faults(),
        upgrade_mode: case.cfg.upgrade_mode,
    }
}

fn h_sample(case: &HCase, o: &HObs) -> Value {
    let stream = case.stream.to_vec();
    json!({
        "scenario": "H",
        "request_stream": String::from_utf8_lossy(&stream[..stream.len().min(400)]),
        "stream_len": stream.len(),
        "cuts": case.cuts.iter().take(16).collect::<Vec<_>>(),
        "read_plan": case.read_plan.iter().take(16).collect::<Vec<_>>(),
        "write_plan": case.write_plan.iter().take(16).collect::<Vec<_>>(),
        "write_err_at": case.write_err_at,
        "wire": String::from_utf8_lossy(&o.wire[..o.wire.len().min(400)]),
        "end": format!("{:?}", o.end).chars().take(200).collect::<String>(),
    })
}

fn h_faults(case: &HCase, o: &HObs) -> Vec<(&'static str, u64)> {
    let kind = match case.write_err_kind {
        0 => "write_error_epipe",
        1 | 2 => "write_wouldblock_or_timedout_once_after_partial_write",
        _ => "flush_interrupted_wouldblock_or_timedout_once",
    };
    vec![
        ("short_read", o.cnt.short_reads),
        ("read_eintr", o.cnt.read_eintr),
        ("short_write", o.cnt.short_writes),
        ("write_eintr", o.cnt.write_eintr),
        (kind, o.cnt.write_errors),
    ]
}

fn h_probes(case: &HCase, o: &HObs, stream: &[u8]) -> Vec<(&'static str, u64)> {
    let (msgs, tail) = split_nul(stream);
    let mut cut_in_msg = 0;
    let mut cut_on_boundary = 0;
    let mut cut_before_nul = 0;
    let mut pos = 0usize;
    let mut bounds = Vec::new();
    for m in &msgs {
        pos += m.len() + 1;
        bounds.push(pos);
    }
    for c in &case.cuts {
        if bounds.contains(c) {
            cut_on_boundary += 1;
        } else if bounds.contains(&(c + 1)) {
            cut_before_nul += 1;
        } else {
            cut_in_msg += 1;
        }
    }
    vec![
        ("cut_inside_message", cut_in_msg),
        ("cut_on_message_boundary", cut_on_boundary),
        ("cut_just_before_nul", cut_before_nul),
        ("handle_calls_ge_2", (o.cnt.handle_calls >= 2) as u64),
        ("pipelined_ge_2_in_one_call", (msgs.len() >= 2 && case.cuts.len() + 1 < msgs.len()) as u64),
        ("incomplete_tail", (!tail.is_empty()) as u64),
        ("upgraded", o.upgrade_wire_len.is_some() as u64),
        ("upgraded_handler_calls_ge_2", (o.upgraded_calls >= 2) as u64),
        ("message_over_8k", msgs.iter().any(|m| m.len() > 8192) as u64),
        ("handle_err", matches!(o.end, HEnd::Err { .. }) as u64),
    ]
}

/// Hash a reply stream in a form that does not depend on std's per-process hash seed: frames are
/// parsed and re-serialised with sorted keys, and the `interfaces` list of a GetInfo reply (whose
/// order beyond the first element follows `HashMap` iteration order inside VarlinkService) is sorted.
pub fn canon_wire_hash(f: &mut Fnv, wire: &[u8]) {
    let (frames, rest) = split_nul(wire);
    for fr in frames {
        match serde_json::from_slice::<Value>(fr) {
            Ok(mut v) => {
                if let Some(a) = v
                    .get_mut("parameters")
                    .and_then(|p| p.get_mut("interfaces"))
                    .and_then(|i| i.as_array_mut())
                {
                    a.sort_by(|x, y| x.to_string().cmp(&y.to_string()));
                }
                f.str(&v.to_string());
            }
            Err(_) => {
                f.bytes(fr);
                f.bytes(&[0]);
            }
        }
    }
    // an unterminated trailing frame (write error mid-reply): drop the order-dependent list tail
    let key = b"\"interfaces\":[";
    match rest.windows(key.len()).position(|w| w == key) {
        Some(p) => {
            f.bytes(&rest[..p]);
            f.u64(rest.len() as u64);
        }
        None => f.bytes(rest),
    }
}

pub fn eval_h(case: &HCase) -> RunResult {
    let o = run_h(case);
    finish_h(case, &o, Vec::new())
}

fn finish_h(case: &HCase, o: &HObs, mut extra: Vec<Violation>) -> RunResult {
    let stream = case.stream.to_vec();
    let model = model_stream(&case.cfg, &stream);
    let obs = obs_of_h(case, o);
    let verdict = check_stream(&case.cfg, &model, &obs);
    let mut violations = verdict.violations;
    violations.append(&mut extra);
    let mut f = Fnv::new();
    canon_wire_hash(&mut f, &o.wire);
    f.str(&format!("{:?}", o.end));
    f.bytes(&o.upgraded_record);
    let nmsgs = model.msgs.len();
    let mut sigf = Fnv::new();
    sigf.str(&serde_json::to_string(case).unwrap());
    RunResult {
        violations,
        sig: sigf.0,
        nontrivial: nmsgs >= 2
            || !case.cuts.is_empty()
            || !case.read_plan.is_empty()
            || !case.write_plan.is_empty()
            || model.has_malformed
            || model.has_gray
            || model.alts.iter().any(|a| matches!(a.end, End::Upgraded { .. })),
        faults: h_faults(case, o),
        probes: h_probes(case, o, &stream),
        sim_ms: 0,
        steps: o.cnt.handle_calls + o.cnt.read_calls,
        log_hash: f.0,
        inconclusive: verdict.inconclusive,
        sample: Some(h_sample(case, o)),
    }
}

/// canonical, segmentation-independent view of an H observation
fn canon(o: &HObs) -> (Vec<Value>, Vec<u8>, String, Vec<u8>) {
    let (frames, rest) = split_nul(&o.wire);
    let mut v = Vec::new();
    for f in frames {
        v.push(serde_json::from_slice::<Value>(f).unwrap_or(Value::Null));
    }
    // how much had been fed when `handle` failed is a property of the segmentation, not of the result
    let end = match &o.end {
        HEnd::Err { kind, .. } => format!("Err({})", kind),
        other => format!("{:?}", other),
    };
    (v, rest.to_vec(), end, o.upgraded_record.clone())
}

/// C02: differential between the whole stream in one piece and the given segmentation / I/O plan,
/// on the same service object. Model-independent; the model oracle runs as well.
pub fn eval_hdiff(case: &HCase) -> RunResult {
    let rec = new_rec();
    let svc = build_service(&case.cfg, &rec);
    let mut base_case = case.clone();
    base_case.cuts.clear();
    base_case.read_plan.clear();
    base_case.write_plan.clear();
    let base = run_h_with(&base_case, &svc, &rec);
    let cb = canon(&base);
    let seg = run_h_with(case, &svc, &rec);
    let cs = canon(&seg);
    let mut extra = Vec::new();
    if base.panicked.is_none() && seg.panicked.is_none() {
        if cb.0 != cs.0 || cb.1 != cs.1 {
            extra.push(viol(
                "C02",
                "diff-replies",
                format!(
                    "reply bytes depend on segmentation: cuts {:?} give {} frames (+{} raw bytes), one piece gives {} frames (+{} raw bytes)",
                    &case.cuts[..case.cuts.len().min(8)],
                    cs.0.len(),
                    cs.1.len(),
                    cb.0.len(),
                    cb.1.len()
                ),
            ));
        }
        if cb.2 != cs.2 {
            extra.push(viol(
                "C02",
                "diff-end",
                format!(
                    "final (tail, upgraded interface) depends on segmentation: cuts {:?} give {}, one piece gives {}",
                    &case.cuts[..case.cuts.len().min(8)],
                    cs.2.chars().take(200).collect::<String>(),
                    cb.2.chars().take(200).collect::<String>()
                ),
            ));
        }
        if cb.3 != cs.3 {
            extra.push(viol(
                "C02",
                "diff-upgrade-record",
                format!(
                    "bytes handed to the upgraded handler depend on segmentation: {} vs {} bytes",
                    cs.3.len(),
                    cb.3.len()
                ),
            ));
        }
    }
    finish_h(case, &seg, extra)
}

/// C05 server side: the first message is a Script request; besides the wire (model oracle) check
/// the Result of every reply call the implementation made.
pub fn eval_hscript(case: &HCase) -> RunResult {
    let o = run_h(case);
    let stream = case.stream.to_vec();
    let model = model_stream(&case.cfg, &stream);
    let mut extra = Vec::new();
    if let Some(Class::Well(v)) = model.msgs.first().map(|m| &m.class) {
        let ops: Vec<String> = v
            .params
            .as_ref()
            .and_then(|p| p.get("script"))
            .and_then(|s| s.as_array())
            .map(|a| a.iter().filter_map(|x| x.as_str().map(String::from)).collect())
            .unwrap_or_default();
        // predicted result per reply op
        let mut cont = false;
        let mut want: Vec<(usize, &'static str)> = Vec::new();
        for (k, op) in ops.iter().enumerate() {
            let (base, ignore) = match op.strip_suffix('!') {
                Some(b) => (b, true),
                None => (op.as_str(), false),
            };
            match base {
                "c1" => cont = true,
                "c0" => cont = false,
                "r" | "e" | "ei" | "em" | "en" => {
                    if cont && !v.more {
                        want.push((k, "CallContinuesMismatch"));
                        if !ignore {
                            break;
                        }
                    } else {
                        want.push((k, "ok"));
                    }
                }
                _ => {}
            }
        }
        let got: Vec<(usize, String)> = {
            let r = o.rec.lock().unwrap_or_else(|e| e.into_inner());
            r.op_results.iter().map(|x| (x.op, x.result.clone())).collect()
        };
        if o.panicked.is_none() && !case.has_faults() {
            for (i, (k, w)) in want.iter().enumerate() {
                match got.get(i) {
                    Some((gk, g)) if gk == k => {
                        let gated = *w == "CallContinuesMismatch";
                        // (also for a oneway request: the attempt itself fails, whether or not anything
                        // would have been written)
                        if gated && g != "CallContinuesMismatch" {
                            extra.push(viol(
                                "C05",
                                "gate-result",
                                format!(
                                    "script {:?} (more={}): reply op #{} with continues set returned {} instead of CallContinuesMismatch",
                                    ops, v.more, k, g
                                ),
                            ));
                        }
                        if !gated && g != "ok" {
                            extra.push(viol(
                                "C05",
                                "legit-reply-refused",
                                format!(
                                    "script {:?} (more={}, oneway={}): legitimate reply op #{} returned {}",
                                    ops, v.more, v.oneway, k, g
                                ),
                            ));
                        }
                    }
                    _ => {
                        if !v.oneway {
                            extra.push(viol(
                                "C05",
                                "script-trace",
                                format!("script {:?}: op results {:?} do not follow the script (want {:?})", ops, got, want),
                            ));
                        }
                        break;
                    }
                }
            }
        }
    }
    finish_h(case, &o, extra)
}

pub fn eval(case: &Case) -> RunResult {
    match case {
        Case::H(c) => eval_h(c),
        Case::HDiff(c) => eval_hdiff(c),
        Case::HScript(c) => eval_hscript(c),
        Case::L(c) => crate::lsim::eval_l(c),
        Case::LDiff(c) => crate::lsim::eval_ldiff(c),
        Case::P(c) => crate::psim::eval_p(c),
        Case::K(c) => crate::ksim::eval_k(c),
        Case::Q(c) => crate::qsim::eval_q(c),
        Case::Fs(k) => eval_fs(*k),
    }
}

/// C15, last clause: a filesystem socket the server created is removed. The simulated listener has no
/// path, so this one clause is looked at with the real `Listener` on the real filesystem: bind, see
/// the path, drop, see it gone. Variants: plain path, path with `;mode=` parameters, a path that
/// already exists as a stale socket file, a path in a nested directory, two listeners one after the
/// other on the same path.
pub fn eval_fs(kind: u8) -> RunResult {
    let mut violations = Vec::new();
    let base = crate::report::verif_dir().join("replays").join(format!(".sock-{}-{}", std::process::id(), kind));
    let _ = std::fs::remove_dir_all(&base);
    let _ = std::fs::create_dir_all(base.join("nested/dir"));
    let path = match kind {
        3 => base.join("nested/dir/s.sock"),
        _ => base.join("s.sock"),
    };
    let addr = match kind {
        1 => format!("unix:{};mode=0600", path.display()),
        _ => format!("unix:{}", path.display()),
    };
    if kind == 2 {
        // a stale file where the socket will be
        let _ = std::fs::write(&path, b"stale");
    }
    let rounds = if kind == 4 { 2 } else { 1 };
    for r in 0..rounds {
        match varlink::Listener::new(&addr) {
            Ok(l) => {
                if !path.exists() {
                    violations.push(viol("C15", "socket-path", format!("Listener::new({:?}) succeeded but {:?} does not exist", addr, path)));
                }
                drop(l);
                if path.exists() {
                    violations.push(viol(
                        "C15",
                        "socket-path-left-behind",
                        format!("the listener bound to {:?} was dropped (round {}), the socket path is still there", addr, r),
                    ));
                }
            }
            Err(e) => violations.push(viol("C15", "socket-path", format!("Listener::new({:?}) failed: {:?}", addr, e.kind()))),
        }
    }
    let _ = std::fs::remove_dir_all(&base);
    let mut f = Fnv::new();
    f.u64(kind as u64);
    f.str(&format!("{:?}", violations));
    RunResult {
        violations,
        sig: 0xF5F5_0000 + kind as u64,
        nontrivial: true,
        faults: vec![],
        probes: vec![("real_filesystem_listener_bound_and_dropped", 1)],
        sim_ms: 0,
        steps: 0,
        log_hash: f.0,
        inconclusive: false,
        sample: Some(json!({
            "scenario": "real filesystem (not simulated)",
            "address_form": *["unix:path", "unix:path;mode=0600", "stale file in the way", "nested directory", "bound twice in a row"].get(kind as usize).unwrap_or(&"?"),
        })),
    }
}

// ---------------------------------------------------------------------------------------------
// shrinking

fn h_shrinks(c: &HCase) -> Vec<HCase> {
    let mut v = Vec::new();
    let stream = c.stream.to_vec();
    let (msgs, tail) = split_nul(&stream);
    // drop one message (cuts are remapped proportionally: simply cleared beyond the new length)
    if msgs.len() > 1 || (msgs.len() == 1 && !tail.is_empty()) {
        for drop in 0..msgs.len() {
            let mut s = Vec::new();
            for (i, m) in msgs.iter().enumerate() {
                if i != drop {
                    s.extend_from_slice(m);
                    s.push(0);
                }
            }
            s.extend_from_slice(tail);
            let mut n = c.clone();
            n.cuts.retain(|x| *x < s.len());
            n.stream = Bytes::from(&s);
            v.push(n);
        }
    }
    if !tail.is_empty() {
        let mut n = c.clone();
        let s = &stream[..stream.len() - tail.len()];
        n.stream = Bytes::from(s);
        n.cuts.retain(|x| *x < s.len());
        v.push(n);
    }
    for i in 0..c.cuts.len() {
        let mut n = c.clone();
        n.cuts.remove(i);
        v.push(n);
    }
    if !c.read_plan.is_empty() {
        let mut n = c.clone();
        n.read_plan.clear();
        v.push(n);
        let mut n = c.clone();
        n.read_plan.pop();
        v.push(n);
    }
    if !c.write_plan.is_empty() {
        let mut n = c.clone();
        n.write_plan.clear();
        v.push(n);
        let mut n = c.clone();
        n.write_plan.pop();
        v.push(n);
    }
    if c.write_err_at.is_some() {
        let mut n = c.clone();
        n.write_err_at = None;
        v.push(n);
    }
    if c.cfg.scripted.len() > 1 {
        for i in 0..c.cfg.scripted.len() {
            let mut n = c.clone();
            n.cfg.scripted.remove(i);
            v.push(n);
        }
    }
    if c.cfg.more {
        let mut n = c.clone();
        n.cfg.more = false;
        v.push(n);
    }
    v
}

pub fn shrink_candidates(case: &Case) -> Vec<Case> {
    match case {
        Case::H(c) => h_shrinks(c).into_iter().map(Case::H).collect(),
        Case::HDiff(c) => h_shrinks(c).into_iter().map(Case::HDiff).collect(),
        Case::HScript(c) => h_shrinks(c)
            .into_iter()
            .filter(|n| {
                // the first message must stay the script request
                let a = c.stream.to_vec();
                let b = n.stream.to_vec();
                split_nul(&a).0.first() == split_nul(&b).0.first()
            })
            .map(Case::HScript)
            .collect(),
        Case::L(c) => crate::lsim::shrinks(c).into_iter().map(Case::L).collect(),
        Case::LDiff(c) => crate::lsim::shrinks(c).into_iter().filter(|x| x.conns.len() == 1).map(Case::LDiff).collect(),
        Case::P(c) => crate::psim::shrinks(c).into_iter().map(Case::P).collect(),
        Case::K(c) => crate::ksim::shrinks(c).into_iter().map(Case::K).collect(),
        Case::Q(c) => crate::qsim::shrinks(c).into_iter().map(Case::Q).collect(),
        Case::Fs(_) => vec![],
    }
}

pub fn pin_schedule(case: &Case, prop: &str, clause: &str) -> Case {
    match case {
        Case::P(c) => Case::P(crate::psim::pin_schedule(c, clause)),
        Case::L(c) => Case::L(crate::lsim::pin_schedule(c, prop, clause)),
        Case::K(c) => Case::K(crate::ksim::pin_schedule(c, prop, clause)),
        Case::Q(c) => Case::Q(crate::qsim::pin_schedule(c, prop, clause)),
        other => other.clone(),
    }
}

/// Greedy delta debugging: keep a smaller case while the same (property, clause) still fails.
pub fn minimise(case: &Case, prop: &str, clause: &str, budget: usize) -> (Case, usize) {
    let mut cur = case.clone();
    let mut tries = 0usize;
    'outer: loop {
        for cand in shrink_candidates(&cur) {
            if tries >= budget {
                break 'outer;
            }
            tries += 1;
            let r = eval(&cand);
            if r.violations.iter().any(|v| v.prop == prop && v.clause == clause) {
                cur = cand;
                continue 'outer;
            }
        }
        break;
    }
    (cur, tries)
}
