//! Controlled scheduling for the multi-threaded scenarios (P, L, K, Q).
//!
//! Every thread of the system under test (the real `listen` acceptor, the real pool workers, real
//! client threads) is a shuttle coroutine; which one runs next is decided *here*, at every
//! synchronisation point (Mutex/RwLock/mpsc/Condvar/spawn/join and every operation on the simulated
//! transport, which takes a shuttle mutex), from one PRNG seeded by the case. The choice list is
//! recorded so a run can be replayed (and shortened) without the PRNG.
//!
//! Task 0 (shuttle's main task) is the *environment*: simulated peers, the timeline and the clock.
//! When it asks for quiescence it is only scheduled once no other task is runnable, which is the
//! exact meaning of "everything that can happen without new input or time passing has happened".

use std::collections::BTreeMap;
use std::panic::{catch_unwind, AssertUnwindSafe};
use std::sync::{Arc, Mutex};

use serde_derive::{Deserialize, Serialize};
use shuttle::scheduler::{Schedule, Scheduler, Task, TaskId};

use crate::rng::{Fnv, Rng};

#[derive(Clone, Debug, Serialize, Deserialize, PartialEq)]
pub enum Mode {
    /// uniform among runnable tasks
    Uniform,
    /// keep the current task with probability pct/100, else uniform
    Sticky(u8),
    /// random task priorities, `depth` random priority change points (PCT-like)
    Pct { depth: u8, horizon: u32 },
    /// prefer task `task` with probability pct/100 whenever it is runnable (acceptor bursts,
    /// starving workers for a while)
    Burst { task: u32, pct: u8 },
    /// avoid task `task` with probability pct/100 (slow acceptor / slow worker)
    Starve { task: u32, pct: u8 },
}

#[derive(Clone, Debug, Serialize, Deserialize, PartialEq)]
pub struct SchedCfg {
    pub seed: u64,
    pub mode: Mode,
    /// bounded bypass: a task runnable for more than this many consecutive decisions without being
    /// chosen is chosen next (keeps every schedule fair, so liveness verdicts are sound)
    pub fairness: u32,
    /// when present the recorded choices are followed instead of the PRNG; past the end (or when a
    /// recorded choice is not runnable) the current task continues, else the lowest runnable id
    pub replay: Option<Vec<u32>>,
}

impl SchedCfg {
    pub fn random(rng: &mut Rng, acceptor_task: u32) -> SchedCfg {
        let mode = match rng.below(10) {
            0 | 1 | 2 => Mode::Uniform,
            3 => Mode::Sticky(50),
            4 => Mode::Sticky(90),
            5 => Mode::Pct {
                depth: rng.range(1, 4) as u8,
                horizon: *rng.pick(&[50u32, 200, 1000]),
            },
            6 | 7 => Mode::Burst {
                task: acceptor_task,
                pct: *rng.pick(&[70u8, 90, 97]),
            },
            8 => Mode::Burst {
                task: 0,
                pct: *rng.pick(&[70u8, 90]),
            },
            _ => Mode::Starve {
                task: rng.range(1, 4) as u32,
                pct: *rng.pick(&[80u8, 95]),
            },
        };
        SchedCfg {
            seed: rng.next(),
            mode,
            fairness: *rng.pick(&[8u32, 32, 64, 200]),
            replay: None,
        }
    }
    pub fn uniform(seed: u64) -> SchedCfg {
        SchedCfg {
            seed,
            mode: Mode::Uniform,
            fairness: 64,
            replay: None,
        }
    }
}

/// State shared between the scheduler and the environment task (same OS thread, never contended).
#[derive(Default, Debug)]
pub struct Ctl {
    pub env_waiting: bool,
    pub granted: bool,
    pub steps: u64,
    pub switches: u64,
    pub choices: Vec<u32>,
    pub max_tasks: u32,
    /// hash of the choice list at context-switch granularity
    pub switch_hash: u64,
    pub fairness_forced: u64,
}

pub type CtlRef = Arc<Mutex<Ctl>>;

fn ctl(c: &CtlRef) -> std::sync::MutexGuard<'_, Ctl> {
    c.lock().unwrap_or_else(|e| e.into_inner())
}

pub struct PlanScheduler {
    cfg: SchedCfg,
    rng: Rng,
    ctl: CtlRef,
    started: bool,
    pos: usize,
    prio: BTreeMap<u32, u64>,
    change_points: Vec<u64>,
    waiting_since: BTreeMap<u32, u32>,
    hash: Fnv,
}

impl PlanScheduler {
    pub fn new(cfg: SchedCfg, ctl: CtlRef) -> PlanScheduler {
        let mut rng = Rng::new(cfg.seed);
        let mut change_points = Vec::new();
        if let Mode::Pct { depth, horizon } = cfg.mode {
            for _ in 0..depth {
                change_points.push(rng.below(horizon.max(1) as u64));
            }
        }
        PlanScheduler {
            cfg,
            rng,
            ctl,
            started: false,
            pos: 0,
            prio: BTreeMap::new(),
            change_points,
            waiting_since: BTreeMap::new(),
            hash: Fnv::new(),
        }
    }

    fn pick(&mut self, cands: &[u32], current: Option<u32>, step: u64) -> u32 {
        if let Some(list) = &self.cfg.replay {
            let want = list.get(self.pos).copied();
            self.pos += 1;
            if let Some(w) = want {
                if cands.contains(&w) {
                    return w;
                }
            }
            if let Some(c) = current {
                if cands.contains(&c) {
                    return c;
                }
            }
            return cands[0];
        }
        // bounded bypass first
        let mut starving: Option<u32> = None;
        for c in cands {
            let w = self.waiting_since.get(c).copied().unwrap_or(0);
            if w > self.cfg.fairness {
                starving = Some(match starving {
                    Some(s) if self.waiting_since[&s] >= w => s,
                    _ => *c,
                });
            }
        }
        if let Some(s) = starving {
            ctl(&self.ctl).fairness_forced += 1;
            return s;
        }
        let uniform = |rng: &mut Rng| cands[rng.usize(cands.len())];
        match self.cfg.mode.clone() {
            Mode::Uniform => uniform(&mut self.rng),
            Mode::Sticky(p) => match current {
                Some(c) if cands.contains(&c) && self.rng.below(100) < p as u64 => c,
                _ => uniform(&mut self.rng),
            },
            Mode::Burst { task, pct } => {
                if cands.contains(&task) && self.rng.below(100) < pct as u64 {
                    task
                } else {
                    uniform(&mut self.rng)
                }
            }
            Mode::Starve { task, pct } => {
                let others: Vec<u32> = cands.iter().copied().filter(|c| *c != task).collect();
                if !others.is_empty() && self.rng.below(100) < pct as u64 {
                    others[self.rng.usize(others.len())]
                } else {
                    uniform(&mut self.rng)
                }
            }
            Mode::Pct { .. } => {
                for c in cands {
                    if !self.prio.contains_key(c) {
                        let p = 1_000 + self.rng.below(1_000_000);
                        self.prio.insert(*c, p);
                    }
                }
                if self.change_points.contains(&step) {
                    if let Some(c) = current {
                        // drop the running task below everyone
                        let low = self.prio.values().min().copied().unwrap_or(1).saturating_sub(1);
                        self.prio.insert(c, low);
                    }
                }
                *cands.iter().max_by_key(|c| (self.prio[c], u32::MAX - **c)).unwrap()
            }
        }
    }
}

impl Scheduler for PlanScheduler {
    fn new_execution(&mut self) -> Option<Schedule> {
        if self.started {
            None
        } else {
            self.started = true;
            Some(Schedule::new(self.cfg.seed))
        }
    }

    fn next_task(&mut self, runnable: &[&Task], current: Option<TaskId>, _is_yielding: bool) -> Option<TaskId> {
        let mut ids: Vec<u32> = runnable.iter().map(|t| usize::from(t.id()) as u32).collect();
        ids.sort_unstable();
        let cur = current.map(|c| usize::from(c) as u32);
        let (step, env_waiting) = {
            let mut c = ctl(&self.ctl);
            c.steps += 1;
            if let Some(m) = ids.last() {
                c.max_tasks = c.max_tasks.max(*m + 1);
            }
            (c.steps - 1, c.env_waiting)
        };
        let cands: Vec<u32> = if env_waiting {
            let non: Vec<u32> = ids.iter().copied().filter(|i| *i != 0).collect();
            if non.is_empty() {
                ctl(&self.ctl).granted = true;
                ids.clone()
            } else {
                non
            }
        } else {
            ids.clone()
        };
        let choice = self.pick(&cands, cur, step);
        // fairness bookkeeping over the candidates only
        for c in &cands {
            if *c == choice {
                self.waiting_since.insert(*c, 0);
            } else {
                *self.waiting_since.entry(*c).or_insert(0) += 1;
            }
        }
        {
            let mut c = ctl(&self.ctl);
            if c.choices.len() < 400_000 {
                c.choices.push(choice);
            }
            if cur != Some(choice) {
                c.switches += 1;
                self.hash.u64(choice as u64);
                c.switch_hash = self.hash.0;
            }
        }
        Some(TaskId::from(choice as usize))
    }

    fn next_u64(&mut self) -> u64 {
        self.rng.next()
    }
}

/// Called by the environment task: returns once no other task is runnable.
pub fn wait_quiescent(c: &CtlRef) {
    loop {
        {
            let mut g = ctl(c);
            g.env_waiting = true;
            g.granted = false;
        }
        shuttle::thread::yield_now();
        let mut g = ctl(c);
        if g.granted {
            g.env_waiting = false;
            g.granted = false;
            return;
        }
    }
}

thread_local! {
    /// set when a task of the current execution panicked: the execution is being torn down
    static DEAD: std::cell::Cell<bool> = const { std::cell::Cell::new(false) };
    /// set when this OS thread hosted a failed execution: the batch runner retires the thread
    static RETIRE: std::cell::Cell<bool> = const { std::cell::Cell::new(false) };
}

pub fn execution_dead() -> bool {
    DEAD.with(|d| d.get())
}
pub fn mark_dead() {
    DEAD.with(|d| d.set(true));
}
pub fn take_retire() -> bool {
    RETIRE.with(|r| r.replace(false))
}

#[derive(Debug)]
pub enum SimEnd {
    Completed,
    /// all tasks blocked while the main task had not finished
    Deadlock(String),
    /// a task panicked (system code or an oracle assertion inside the run)
    Panic(String),
    /// step bound exceeded: harness problem, never a verdict
    StepBound,
}

pub struct SimStats {
    pub steps: u64,
    pub switches: u64,
    pub switch_hash: u64,
    pub choices: Vec<u32>,
    pub tasks: u32,
    pub fairness_forced: u64,
}

/// about five times the scheduler steps of the largest legitimate run seen in the thorough tier
pub const MAX_STEPS: usize = 1_200_000;

/// Run `f` once as shuttle's main task under a `PlanScheduler`.
pub fn run_sim<F>(cfg: &SchedCfg, f: F) -> (SimEnd, SimStats)
where
    F: FnOnce(CtlRef) + Send + 'static,
{
    let ctl_ref: CtlRef = Arc::new(Mutex::new(Ctl::default()));
    let sched = PlanScheduler::new(cfg.clone(), ctl_ref.clone());
    let mut config = shuttle::Config::new();
    config.stack_size = 1 << 20;
    config.failure_persistence = shuttle::FailurePersistence::None;
    config.max_steps = shuttle::MaxSteps::FailAfter(MAX_STEPS);
    config.silence_warnings = true;
    let runner = shuttle::Runner::new(sched, config);
    let slot = Mutex::new(Some(f));
    let c2 = ctl_ref.clone();
    DEAD.with(|d| d.set(false));
    let res = catch_unwind(AssertUnwindSafe(move || {
        runner.run(move || {
            let f = slot.lock().unwrap_or_else(|e| e.into_inner()).take();
            if let Some(f) = f {
                f(c2.clone());
            }
        })
    }));
    DEAD.with(|d| d.set(false));
    let end = match res {
        Ok(_) => SimEnd::Completed,
        Err(p) => {
            RETIRE.with(|r| r.set(true));
            let t = crate::hsim::panic_text(p);
            if t.contains("deadlock!") {
                SimEnd::Deadlock(t)
            } else if t.contains("exceeded max_steps") {
                SimEnd::StepBound
            } else {
                SimEnd::Panic(t)
            }
        }
    };
    let g = ctl(&ctl_ref);
    let stats = SimStats {
        steps: g.steps,
        switches: g.switches,
        switch_hash: g.switch_hash,
        choices: g.choices.clone(),
        tasks: g.max_tasks,
        fairness_forced: g.fairness_forced,
    };
    (end, stats)
}

/// Shorten a recorded choice list for replay files: try to replace suffixes / blocks by "continue
/// the current task" (i.e. drop them; the replay fallback continues the current task) while `still`
/// keeps returning true.
pub fn shrink_choices(choices: &[u32], mut still: impl FnMut(&[u32]) -> bool, budget: usize) -> Vec<u32> {
    let mut cur = choices.to_vec();
    let mut tries = 0usize;
    // 1. truncate
    let mut len = cur.len();
    while len > 0 && tries < budget {
        let half = len / 2;
        tries += 1;
        if still(&cur[..half]) {
            cur.truncate(half);
            len = half;
        } else {
            break;
        }
    }
    // 2. binary search the shortest failing prefix between len/2 and len
    let mut lo = cur.len() / 2;
    let mut hi = cur.len();
    while lo + 1 < hi && tries < budget {
        let mid = (lo + hi) / 2;
        tries += 1;
        if still(&cur[..mid]) {
            hi = mid;
        } else {
            lo = mid;
        }
    }
    cur.truncate(hi);
    cur
}
