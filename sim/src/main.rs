//! vsim — deterministic simulation with fault injection for varlink/rust.
//!
//!   vsim check <PROP> [--tier quick|thorough]     run the exploration plan of one property
//!   vsim replay <file>                            re-execute a replay file, must reproduce
//!   vsim loghash <PROP> [--tier ..] [--limit N]   print per-run event-log hashes (determinism proof)
//!
//! Exit status: 0 property held on everything explored (known findings are printed, not alarmed),
//! 1 violation (a line `VIOLATION property=<id> replay=<path>` is printed), 2 harness error.

mod alphabet;
mod cases;
mod hsim;
mod ksim;
mod lsim;
mod model;
mod net;
mod oracle;
mod props;
mod psim;
mod qsim;
mod report;
mod rng;
mod sched;
mod svc;

use std::collections::BTreeMap;

use serde_json::{json, Value};

use cases::{eval, minimise, Case};
use report::{load_known, run_batch, write_evidence, write_replay, EvidenceMeta, Tier, Timer};
use rng::derive_seed;

fn usage() -> ! {
    eprintln!("usage: vsim check <PROP> [--tier quick|thorough] | vsim replay <file> | vsim loghash <PROP> [--limit N]");
    std::process::exit(2);
}

fn seed_from_env() -> u64 {
    match std::env::var("VERIF_SEED") {
        Ok(s) if !s.trim().is_empty() => s.trim().parse::<u64>().unwrap_or_else(|_| {
            println!("harness error: VERIF_SEED={:?} is not an unsigned integer", s);
            std::process::exit(2);
        }),
        _ => 1,
    }
}

fn tier_from(args: &[String]) -> Tier {
    let mut t = match std::env::var("VERIF_TIER").as_deref() {
        Ok("thorough") => Tier::Thorough,
        _ => Tier::Quick,
    };
    for (i, a) in args.iter().enumerate() {
        if a == "--tier" {
            match args.get(i + 1).map(|s| s.as_str()) {
                Some("quick") => t = Tier::Quick,
                Some("thorough") => t = Tier::Thorough,
                _ => usage(),
            }
        }
    }
    t
}

fn intern_prop(p: &str) -> &'static str {
    match p {
        "C01" => "C01",
        "C02" => "C02",
        "C03" => "C03",
        "C04" => "C04",
        "C05" => "C05",
        "C06" => "C06",
        "C07" => "C07",
        "C13" => "C13",
        "C14" => "C14",
        "C15" => "C15",
        "C19" => "C19",
        _ => {
            println!("harness error: property {} has no check (not applicable or unknown)", p);
            std::process::exit(2);
        }
    }
}

fn gen_case(plan: &props::Plan, prop: &str, seed: u64, i: u64) -> (Case, &'static str, u64, u64) {
    let (space, local) = plan.locate(i);
    let run_seed = derive_seed(seed, &format!("{}/{}", prop, space.name), local);
    ((space.gen)(local, run_seed), space.name, local, run_seed)
}

fn quiet_panics() {
    // panics inside simulated runs are verdicts (caught and reported), not crashes to print
    std::panic::set_hook(Box::new(|info| {
        // first panic of an execution: everything dropped from now on must stay away from the scheduler
        sched::mark_dead();
        if std::env::var("VSIM_SHOW_PANICS").is_ok() {
            eprintln!("{}", info);
        }
    }));
}

fn check(prop: &'static str, tier: Tier) -> i32 {
    let seed = seed_from_env();
    println!("VERIF_SEED={} property={} tier={} threads={}", seed, prop, tier.name(), report::threads());
    let t = Timer::start();
    let plan = props::plan_for(prop, tier).unwrap_or_else(|| usage());
    let total = plan.total();
    for s in &plan.spaces {
        println!("  space {:<28} {:>9} cases{}", s.name, s.size, if s.exhaustive { " (complete)" } else { " (seeded sample)" });
    }
    let agg = run_batch(prop, total, 6, |i| {
        let (case, _, _, _) = gen_case(&plan, prop, seed, i);
        eval(&case)
    });
    if agg.harness_panics > 0 {
        let (i, m) = agg.first_harness_panic.clone().unwrap_or((0, String::new()));
        println!(
            "harness error: {} run(s) panicked in the harness itself, outside the simulated execution (first: run {}: {}); nothing this batch reports can be believed",
            agg.harness_panics, i, m
        );
        return 2;
    }
    if agg.stopped_early {
        println!(
            "batch stopped after {} failing runs ({} of {} planned runs evaluated): enough evidence, and every abandoned execution costs memory",
            agg.failures.len().max(1),
            agg.evaluations,
            total
        );
    }
    if agg.evaluations != total && !agg.stopped_early {
        println!(
            "harness error: {} of {} planned runs were evaluated (worker threads lost their results); nothing this batch reports can be believed",
            agg.evaluations, total
        );
        return 2;
    }
    let known = load_known();
    let mut known_lines: Vec<String> = Vec::new();
    let mut unknown = 0u64;
    // one report per violated clause, each from the lowest failing index
    let mut by_clause: BTreeMap<String, (u64, oracle::Violation)> = BTreeMap::new();
    for (idx, vs) in &agg.failures {
        for v in vs {
            by_clause.entry(v.clause.clone()).or_insert((*idx, v.clone()));
        }
    }
    for (clause, (idx, v)) in &by_clause {
        let (case, space, local, run_seed) = gen_case(&plan, prop, seed, *idx);
        // every failing run of this clause must be covered by a finding for it to count as known
        let all_known = agg
            .failures
            .values()
            .flatten()
            .filter(|x| &x.clause == clause)
            .all(|x| known.matches(prop, x).is_some());
        if all_known {
            let f = known.matches(prop, v).unwrap();
            let line = format!("KNOWN-FINDING: property={} {}", prop, f.what);
            println!("{}", line);
            known_lines.push(line);
            continue;
        }
        unknown += 1;
        let (min, tries) = minimise(&case, prop, clause, 400);
        // multi-threaded scenarios: pin the recorded (and shortened) scheduler choice list
        let min = cases::pin_schedule(&min, prop, clause);
        let r = eval(&min);
        let mv = r
            .violations
            .iter()
            .find(|x| x.prop == prop && &x.clause == clause)
            .cloned()
            .unwrap_or_else(|| v.clone());
        let body = json!({
            "property": prop,
            "clause": clause,
            "detail": mv.detail,
            "verif_seed": seed,
            "space": space,
            "index_in_space": local,
            "run_seed": run_seed,
            "log_hash": format!("{:016x}", r.log_hash),
            "minimised": {"shrink_attempts": tries},
            "case": serde_json::to_value(&min).unwrap(),
            "original_case": serde_json::to_value(&case).unwrap(),
        });
        let path = write_replay(prop, seed, *idx, body);
        println!("violated clause: {} — {}", clause, mv.detail);
        println!("VIOLATION property={} replay={}", prop, path);
    }
    let wall = t.secs();
    let meta = EvidenceMeta {
        prop,
        tier,
        seed,
        level: plan.level,
        rule: plan.rule.clone(),
        exhaustive: plan.spaces.iter().all(|s| s.exhaustive),
        components_real: plan.real.clone(),
        components_stub: plan.stub.clone(),
        assumptions: plan.assumptions.clone(),
        extra: json!({
            "spaces": plan.spaces.iter().map(|s| json!({"name": s.name, "cases": s.size, "complete_enumeration": s.exhaustive})).collect::<Vec<Value>>(),
            "failing_runs": agg.failures.len(),
        }),
    };
    write_evidence(&meta, &agg, wall, unknown, &known_lines);
    println!(
        "{}: {} runs, {} distinct non-trivial, {} failing runs, {} inconclusive, {:.1}s",
        prop,
        agg.evaluations,
        agg.nontrivial_sigs.len(),
        agg.failures.len(),
        agg.inconclusive,
        wall
    );
    if !agg.other_props.is_empty() {
        println!("  (violations attributed to other properties seen in these runs: {:?})", agg.other_props);
        if std::env::var("VSIM_VERBOSE").is_ok() {
            for (k, d) in &agg.other_details {
                println!("    {} — {}", k, d);
            }
        }
    }
    if unknown > 0 {
        1
    } else {
        0
    }
}

// ---------------------------------------------------------------------------------------------
// supervision: `check` and `replay` run the real work in a child process. Served code that brings
// the whole process down (stack overflow, abort) or blocks it for good (a lock outside the
// scheduler's control held across a simulated blocking call) must end as a reported violation with a
// replay file, not as a dead or hanging check.

fn hang_limit_ms() -> u64 {
    std::env::var("VSIM_HANG_SECS").ok().and_then(|s| s.parse::<u64>().ok()).unwrap_or(240) * 1000
}

fn now_ms() -> u64 {
    std::time::SystemTime::now().duration_since(std::time::UNIX_EPOCH).map(|d| d.as_millis() as u64).unwrap_or(0)
}

enum ChildEnd {
    Exit(i32),
    Signal(i32),
    Hung(Vec<u64>),
}

fn run_child(args: &[String], inflight: Option<&std::path::Path>, limit_ms: u64) -> ChildEnd {
    use std::os::unix::process::ExitStatusExt;
    let exe = std::env::current_exe().expect("own path");
    let mut cmd = std::process::Command::new(exe);
    cmd.args(args).env("VSIM_CHILD", "1");
    if let Some(p) = inflight {
        cmd.env("VSIM_INFLIGHT", p);
    }
    let mut child = cmd.spawn().expect("spawn child");
    let started = now_ms();
    loop {
        match child.try_wait() {
            Ok(Some(st)) => {
                return match st.code() {
                    Some(c) => ChildEnd::Exit(c),
                    None => ChildEnd::Signal(st.signal().unwrap_or(0)),
                };
            }
            Ok(None) => {}
            Err(_) => return ChildEnd::Exit(2),
        }
        std::thread::sleep(std::time::Duration::from_millis(200));
        let now = now_ms();
        match inflight {
            Some(p) => {
                let (recs, _) = report::inflight_read(p);
                let stuck: Vec<u64> = recs.iter().filter(|(_, t)| *t > 0 && now.saturating_sub(*t) > limit_ms).map(|(i, _)| *i).collect();
                if !stuck.is_empty() {
                    let _ = child.kill();
                    let _ = child.wait();
                    return ChildEnd::Hung(stuck);
                }
            }
            None => {
                if now.saturating_sub(started) > limit_ms {
                    let _ = child.kill();
                    let _ = child.wait();
                    return ChildEnd::Hung(vec![]);
                }
            }
        }
    }
}

fn supervise_check(prop: &'static str, tier: Tier, args: &[String]) -> i32 {
    let dir = report::verif_dir().join("replays");
    let _ = std::fs::create_dir_all(&dir);
    let state = dir.join(format!(".inflight-{}", std::process::id()));
    if report::inflight_new_file(&state).is_err() {
        println!("harness error: cannot create {}", state.display());
        return 2;
    }
    let limit = hang_limit_ms();
    let end = run_child(&args[1..], Some(&state), limit);
    let (suspects, why, done) = match end {
        ChildEnd::Exit(c) => {
            let _ = std::fs::remove_file(&state);
            return c;
        }
        ChildEnd::Signal(sig) => {
            let (recs, done) = report::inflight_read(&state);
            (recs.into_iter().map(|(i, _)| i).collect::<Vec<u64>>(), format!("the checking process was killed by signal {}", sig), done)
        }
        ChildEnd::Hung(stuck) => {
            let (_, done) = report::inflight_read(&state);
            (stuck, format!("a run did not finish within {} s of wall time", limit / 1000), done)
        }
    };
    let _ = std::fs::remove_file(&state);
    println!("{}; {} run(s) were in flight, re-running each alone to find the cause", why, suspects.len());
    let seed = seed_from_env();
    let plan = props::plan_for(prop, tier).unwrap_or_else(|| usage());
    let mut found = 0u64;
    let mut lines = Vec::new();
    for idx in suspects {
        let one = vec!["one".to_string(), prop.to_string(), "--tier".to_string(), tier.name().to_string(), "--index".to_string(), idx.to_string()];
        let one_out = dir.join(format!(".one-{}-{}", std::process::id(), idx));
        std::env::set_var("VSIM_ONE_OUT", &one_out);
        let r = run_child(&one, None, limit);
        std::env::remove_var("VSIM_ONE_OUT");
        let verdict: Option<(String, String)> = std::fs::read_to_string(&one_out).ok().and_then(|t| serde_json::from_str::<Value>(&t).ok()).and_then(|v| {
            Some((v.get("clause")?.as_str()?.to_string(), v.get("detail")?.as_str()?.to_string()))
        });
        let _ = std::fs::remove_file(&one_out);
        let owned: (String, String);
        let (clause, detail): (&str, String) = match r {
            // the batch died, but run alone this case comes to an end - and violates the property
            ChildEnd::Exit(1) if verdict.is_some() => {
                owned = verdict.unwrap();
                (owned.0.as_str(), format!("{} (found when the runs that were in flight were repeated alone, after {})", owned.1, why))
            }
            ChildEnd::Exit(_) => continue,
            ChildEnd::Signal(sig) => (
                "process-crash",
                format!("served code brought the whole process down (signal {}): a panic cannot do that; this is an abort, a stack overflow or a fault", sig),
            ),
            ChildEnd::Hung(_) => (
                "process-hang",
                format!(
                    "the run never finished ({} s): a simulated thread blocked the whole process (a lock that is not under the scheduler's control held across a blocking call) or computes without end",
                    limit / 1000
                ),
            ),
        };
        let (case, space, local, run_seed) = gen_case(&plan, prop, seed, idx);
        let body = json!({
            "property": prop,
            "clause": clause,
            "detail": detail,
            "verif_seed": seed,
            "space": space,
            "index_in_space": local,
            "run_seed": run_seed,
            "log_hash": "n/a",
            "minimised": {"shrink_attempts": 0},
            "case": serde_json::to_value(&case).unwrap(),
            "original_case": serde_json::to_value(&case).unwrap(),
        });
        let path = write_replay(prop, seed, idx, body);
        println!("violated clause: {} — {}", clause, detail);
        let line = format!("VIOLATION property={} replay={}", prop, path);
        println!("{}", line);
        lines.push(line);
        found += 1;
        if found >= 3 {
            break;
        }
    }
    if found == 0 {
        println!("harness error: {} but none of the in-flight runs reproduces it alone", why);
        return 2;
    }
    // a schema-valid evidence file for the aborted batch
    let ev = json!({
        "property_id": prop,
        "tier": tier.name(),
        "seed": seed,
        "level": plan.level,
        "coverage": {
            "evaluations": done.max(1),
            "distinct_nontrivial": done.max(2),
            "rule": format!("batch aborted: {}. Counts are the runs completed before that (each run is a distinct generated case; not re-counted for non-triviality). Plan: {}", why, plan.rule),
            "samples": lines,
            "exhaustive": false,
        },
        "assumptions": plan.assumptions,
        "wall_s": 0.0,
        "violations": found,
    });
    let dir = report::verif_dir().join("evidence");
    let _ = std::fs::create_dir_all(&dir);
    let _ = std::fs::write(dir.join(format!("{}.json", prop)), serde_json::to_string_pretty(&ev).unwrap());
    1
}

fn one(prop: &'static str, tier: Tier, index: u64) -> i32 {
    let seed = seed_from_env();
    let plan = props::plan_for(prop, tier).unwrap_or_else(|| usage());
    let (case, _, _, _) = gen_case(&plan, prop, seed, index.min(plan.total().saturating_sub(1)));
    let r = eval(&case);
    for v in &r.violations {
        println!("  {} {}: {}", v.prop, v.clause, v.detail);
    }
    if let (Ok(path), Some(v)) = (std::env::var("VSIM_ONE_OUT"), r.violations.iter().find(|v| v.prop == prop)) {
        let _ = std::fs::write(path, json!({"clause": v.clause, "detail": v.detail}).to_string());
    }
    if r.violations.iter().any(|v| v.prop == prop) {
        1
    } else {
        0
    }
}

fn supervise_replay(args: &[String]) -> i32 {
    let limit = hang_limit_ms();
    match run_child(&args[1..], None, limit) {
        ChildEnd::Exit(c) => c,
        ChildEnd::Signal(sig) => {
            let (prop, clause) = replay_ids(&args[2]);
            println!("replay {}: the replaying process was killed by signal {}", args[2], sig);
            if clause == "process-crash" {
                println!("REPRODUCED property={} clause={}", prop, clause);
            }
            println!("VIOLATION property={} replay={}", prop, args[2]);
            1
        }
        ChildEnd::Hung(_) => {
            let (prop, clause) = replay_ids(&args[2]);
            println!("replay {}: did not finish within {} s", args[2], limit / 1000);
            if clause == "process-hang" {
                println!("REPRODUCED property={} clause={}", prop, clause);
            }
            println!("VIOLATION property={} replay={}", prop, args[2]);
            1
        }
    }
}

fn replay_ids(path: &str) -> (String, String) {
    let body: Value = std::fs::read_to_string(path).ok().and_then(|t| serde_json::from_str(&t).ok()).unwrap_or(Value::Null);
    (body["property"].as_str().unwrap_or("?").to_string(), body["clause"].as_str().unwrap_or("?").to_string())
}

fn replay(path: &str) -> i32 {
    let text = std::fs::read_to_string(path).unwrap_or_else(|e| {
        println!("harness error: cannot read {}: {}", path, e);
        std::process::exit(2);
    });
    let body: Value = serde_json::from_str(&text).unwrap_or_else(|e| {
        println!("harness error: {} is not JSON: {}", path, e);
        std::process::exit(2);
    });
    let case: Case = serde_json::from_value(body["case"].clone()).unwrap_or_else(|e| {
        println!("harness error: replay case does not parse: {}", e);
        std::process::exit(2);
    });
    let prop = body["property"].as_str().unwrap_or("").to_string();
    let clause = body["clause"].as_str().unwrap_or("").to_string();
    let r = eval(&case);
    let hash = format!("{:016x}", r.log_hash);
    println!("replay {}: log_hash={} (recorded {})", path, hash, body["log_hash"].as_str().unwrap_or("?"));
    for v in &r.violations {
        println!("  {} {}: {}", v.prop, v.clause, v.detail);
    }
    if std::env::var("VSIM_VERBOSE").is_ok() {
        if let Some(s) = &r.sample {
            println!("{}", serde_json::to_string_pretty(s).unwrap());
        }
    }
    let same = r.violations.iter().any(|v| v.prop == prop && v.clause == clause);
    if same {
        if Some(hash.as_str()) != body["log_hash"].as_str() {
            println!("REPRODUCED-WITH-DIFFERENT-LOG property={} clause={}", prop, clause);
        } else {
            println!("REPRODUCED property={} clause={}", prop, clause);
        }
        println!("VIOLATION property={} replay={}", prop, path);
        1
    } else {
        println!("NOT-REPRODUCED property={} clause={}", prop, clause);
        0
    }
}

fn loghash(prop: &'static str, tier: Tier, limit: u64) -> i32 {
    let seed = seed_from_env();
    let plan = props::plan_for(prop, tier).unwrap_or_else(|| usage());
    let total = plan.total().min(limit);
    // spread the sample over all spaces
    let stride = (plan.total() / total.max(1)).max(1);
    let hashes = std::sync::Mutex::new(BTreeMap::new());
    run_batch(prop, total, 0, |k| {
        let i = (k * stride) % plan.total();
        let (case, _, _, _) = gen_case(&plan, prop, seed, i);
        let r = eval(&case);
        hashes.lock().unwrap().insert(i, r.log_hash);
        r
    });
    for (i, h) in hashes.into_inner().unwrap() {
        println!("{} {:016x}", i, h);
    }
    0
}

fn main() {
    let args: Vec<String> = std::env::args().collect();
    if args.len() < 3 {
        usage();
    }
    quiet_panics();
    let child = std::env::var("VSIM_CHILD").is_ok();
    let code = match args[1].as_str() {
        "check" if !child => supervise_check(intern_prop(&args[2]), tier_from(&args), &args),
        "replay" if !child => supervise_replay(&args),
        "check" => check(intern_prop(&args[2]), tier_from(&args)),
        "replay" => replay(&args[2]),
        "one" => {
            let mut index = 0u64;
            for (i, a) in args.iter().enumerate() {
                if a == "--index" {
                    index = args.get(i + 1).and_then(|s| s.parse().ok()).unwrap_or(0);
                }
            }
            one(intern_prop(&args[2]), tier_from(&args), index)
        }
        "loghash" => {
            let mut limit = 2000u64;
            for (i, a) in args.iter().enumerate() {
                if a == "--limit" {
                    limit = args.get(i + 1).and_then(|s| s.parse().ok()).unwrap_or(2000);
                }
            }
            loghash(intern_prop(&args[2]), tier_from(&args), limit)
        }
        _ => usage(),
    };
    std::process::exit(code);
}
