fn main() { println!("hello"); }
