//! Sequential reference model of a varlink service. Shares no code with /repo: own NUL splitter,
//! own message classifier, own method-string split, own error payloads.
//!
//! Given a service configuration and a request byte stream it yields, per alternative (a stream
//! may contain one or more *gray* messages for which two outcomes are acceptable), the expected
//! reply stream, the owner of every reply, how the stream ends, and the calls that scripted
//! interfaces must have received.

use serde::de::{self, MapAccess, Visitor};
use serde_derive::{Deserialize, Serialize};
use serde_json::{json, Value};

pub const SVC: &str = "org.varlink.service";
pub const PING: &str = "org.example.ping";
pub const MORE: &str = "org.example.more";

#[derive(Clone, Debug, Serialize, Deserialize, PartialEq)]
pub struct SvcCfg {
    pub vendor: String,
    pub product: String,
    pub version: String,
    pub url: String,
    /// names of hand-written scripted interfaces, in registration order
    pub scripted: Vec<String>,
    /// register the generated org.example.ping proxy
    pub ping: bool,
    /// register the generated org.example.more proxy
    pub more: bool,
    /// upgraded handler shape: 1 = consume to EOF, 2 = line records, returns partial line as unread
    pub upgrade_mode: u8,
}

impl SvcCfg {
    pub fn basic() -> SvcCfg {
        SvcCfg {
            vendor: "org.varlink".into(),
            product: "sim service".into(),
            version: "0.1".into(),
            url: "http://varlink.org".into(),
            scripted: vec!["org.sim.a".into()],
            ping: true,
            more: true,
            upgrade_mode: 2,
        }
    }
    pub fn registered(&self) -> Vec<String> {
        // later registrations of the same name replace earlier ones (a map), names are unique here
        let mut v: Vec<String> = Vec::new();
        for n in &self.scripted {
            if !v.contains(n) {
                v.push(n.clone());
            }
        }
        if self.ping && !v.iter().any(|x| x == PING) {
            v.push(PING.into());
        }
        if self.more && !v.iter().any(|x| x == MORE) {
            v.push(MORE.into());
        }
        v
    }
    pub fn is_scripted(&self, n: &str) -> bool {
        self.scripted.iter().any(|x| x == n)
    }
}

pub fn scripted_description(name: &str) -> String {
    format!(
        "# scripted simulation interface\ninterface {}\n\nmethod Echo() -> ()\nmethod Script() -> ()\nmethod Fail() -> ()\nmethod Upgrade() -> ()\nerror Failed ()\nerror ScriptError ()\n",
        name
    )
}

pub const SVC_DESCRIPTION: &str = r#"# The Varlink Service Interface is provided by every varlink service. It
# describes the service and the interfaces it implements.
interface org.varlink.service

# Get a list of all the interfaces a service provides and information
# about the implementation.
method GetInfo() -> (
  vendor: string,
  product: string,
  version: string,
  url: string,
  interfaces: []string
)

# Get the description of an interface that is implemented by this service.
method GetInterfaceDescription(interface: string) -> (description: string)

# The requested interface was not found.
error InterfaceNotFound (interface: string)

# The requested method was not found
error MethodNotFound (method: string)

# The interface defines the requested method, but the service does not
# implement it.
error MethodNotImplemented (method: string)

# One of the passed parameters is invalid.
error InvalidParameter (parameter: string)
"#;

pub fn idl_text(iface: &str) -> String {
    let p = match iface {
        PING => "/repo/examples/ping/src/org.example.ping.varlink",
        MORE => "/repo/examples/more/src/org.example.more.varlink",
        _ => panic!("no idl for {}", iface),
    };
    std::fs::read_to_string(p).expect("idl readable")
}

// ---------------------------------------------------------------------------------------------
// message classification (independent of varlink::Request)

#[derive(Clone, Debug, PartialEq)]
pub struct ReqView {
    pub method: String,
    pub params: Option<Value>,
    pub more: bool,
    pub oneway: bool,
    pub upgrade: bool,
}

#[derive(Clone, Debug, PartialEq)]
pub enum Class {
    Well(ReqView),
    Malformed(&'static str),
    /// either outcome (treated as malformed, or accepted as `view`) is acceptable;
    /// `None` means the accepted outcome cannot be predicted
    Gray(Option<ReqView>, &'static str),
}

struct Top(Vec<(String, Value)>);
impl<'de> de::Deserialize<'de> for Top {
    fn deserialize<D: de::Deserializer<'de>>(d: D) -> Result<Self, D::Error> {
        struct V;
        impl<'de> Visitor<'de> for V {
            type Value = Top;
            fn expecting(&self, f: &mut std::fmt::Formatter) -> std::fmt::Result {
                f.write_str("an object")
            }
            fn visit_map<A: MapAccess<'de>>(self, mut m: A) -> Result<Top, A::Error> {
                let mut v = Vec::new();
                while let Some(k) = m.next_key::<String>()? {
                    let val: Value = m.next_value()?;
                    v.push((k, val));
                }
                Ok(Top(v))
            }
        }
        d.deserialize_map(V)
    }
}

/// maximal bracket nesting outside of strings
pub fn nesting_depth(b: &[u8]) -> usize {
    let (mut d, mut max, mut in_str, mut esc) = (0usize, 0usize, false, false);
    for &c in b {
        if in_str {
            if esc {
                esc = false;
            } else if c == b'\\' {
                esc = true;
            } else if c == b'"' {
                in_str = false;
            }
        } else {
            match c {
                b'"' => in_str = true,
                b'[' | b'{' => {
                    d += 1;
                    max = max.max(d);
                }
                b']' | b'}' => d = d.saturating_sub(1),
                _ => {}
            }
        }
    }
    max
}

pub const DEPTH_SURELY_OK: usize = 64;

pub fn classify(msg: &[u8]) -> Class {
    let deep = nesting_depth(msg) > DEPTH_SURELY_OK;
    let top: Top = match serde_json::from_slice(msg) {
        Ok(t) => t,
        Err(_) => {
            // a JSON *array* would be accepted by a derived struct visitor as a sequence: gray
            if !deep {
                if let Ok(Value::Array(_)) = serde_json::from_slice::<Value>(msg) {
                    return Class::Gray(None, "top-level array");
                }
            }
            return if deep {
                Class::Gray(None, "deep nesting")
            } else {
                Class::Malformed("not a JSON object")
            };
        }
    };
    let mut gray: Option<&'static str> = if deep { Some("deep nesting") } else { None };
    let mut seen: Vec<&str> = Vec::new();
    for (k, _) in &top.0 {
        if seen.contains(&k.as_str()) {
            gray = Some("duplicate member");
        }
        seen.push(k);
    }
    let get = |name: &str| top.0.iter().rev().find(|(k, _)| k == name).map(|(_, v)| v);
    let method = match get("method") {
        Some(Value::String(s)) => s.clone(),
        Some(_) => return Class::Malformed("method is not a string"),
        None => return Class::Malformed("method missing"),
    };
    let mut flag = |name: &str| -> Result<bool, ()> {
        match get(name) {
            None => Ok(false),
            Some(Value::Bool(b)) => Ok(*b),
            Some(Value::Null) => {
                gray = Some("null flag");
                Ok(false)
            }
            Some(_) => Err(()),
        }
    };
    let more = match flag("more") {
        Ok(b) => b,
        Err(_) => return Class::Malformed("more is not a bool"),
    };
    let oneway = match flag("oneway") {
        Ok(b) => b,
        Err(_) => return Class::Malformed("oneway is not a bool"),
    };
    let upgrade = match flag("upgrade") {
        Ok(b) => b,
        Err(_) => return Class::Malformed("upgrade is not a bool"),
    };
    let params = match get("parameters") {
        None | Some(Value::Null) => None,
        Some(v) => Some(v.clone()),
    };
    for (k, _) in &top.0 {
        if !matches!(k.as_str(), "method" | "parameters" | "more" | "oneway" | "upgrade") {
            gray = gray.or(Some("unknown member"));
        }
    }
    let view = ReqView {
        method,
        params,
        more,
        oneway,
        upgrade,
    };
    match gray {
        Some(why) => Class::Gray(if why == "duplicate member" { None } else { Some(view) }, why),
        None => Class::Well(view),
    }
}

// ---------------------------------------------------------------------------------------------
// expected replies

#[derive(Clone, Debug, PartialEq)]
pub enum ExpReply {
    Exact(Value),
    /// equal after dropping null-valued object members on both sides (generated serde types may
    /// write an unset optional as null or omit it; both are the same value on the wire)
    Loose(Value),
    /// GetInfo: service interface first, the rest compared as a set
    Info {
        vendor: String,
        product: String,
        version: String,
        url: String,
        rest: Vec<String>,
    },
    /// InvalidParameter whose text comes from serde
    InvalidParamAny,
    /// any final error reply (only ever used as the *suppressed* reply of a oneway request)
    AnyError,
}

impl ExpReply {
    pub fn is_continues(&self) -> bool {
        matches!(self, ExpReply::Exact(v) | ExpReply::Loose(v) if v.get("continues") == Some(&Value::Bool(true)))
    }
    pub fn matches(&self, obs: &Value) -> bool {
        match self {
            ExpReply::Exact(v) => v == obs,
            ExpReply::Loose(v) => strip_nulls(v) == strip_nulls(obs),
            ExpReply::AnyError => obs.get("error").map_or(false, |e| e.is_string()) && obs.get("continues") != Some(&Value::Bool(true)),
            ExpReply::InvalidParamAny => {
                let o = match obs.as_object() {
                    Some(o) => o,
                    None => return false,
                };
                o.len() == 2
                    && o.get("error") == Some(&json!("org.varlink.service.InvalidParameter"))
                    && matches!(o.get("parameters").and_then(|p| p.as_object()),
                        Some(p) if p.len() == 1 && p.get("parameter").map_or(false, |s| s.is_string()))
            }
            ExpReply::Info {
                vendor,
                product,
                version,
                url,
                rest,
            } => {
                let o = match obs.as_object() {
                    Some(o) if o.len() == 1 => o,
                    _ => return false,
                };
                let p = match o.get("parameters").and_then(|p| p.as_object()) {
                    Some(p) if p.len() == 5 => p,
                    _ => return false,
                };
                if p.get("vendor") != Some(&json!(vendor))
                    || p.get("product") != Some(&json!(product))
                    || p.get("version") != Some(&json!(version))
                    || p.get("url") != Some(&json!(url))
                {
                    return false;
                }
                let ifs = match p.get("interfaces").and_then(|i| i.as_array()) {
                    Some(a) => a,
                    None => return false,
                };
                if ifs.first() != Some(&json!(SVC)) {
                    return false;
                }
                let mut got: Vec<String> = Vec::new();
                for i in &ifs[1..] {
                    match i.as_str() {
                        Some(s) => got.push(s.to_string()),
                        None => return false,
                    }
                }
                let mut want = rest.clone();
                got.sort();
                want.sort();
                got == want
            }
        }
    }
}

pub fn strip_nulls(v: &Value) -> Value {
    match v {
        Value::Object(o) => Value::Object(
            o.iter()
                .filter(|(_, x)| !x.is_null())
                .map(|(k, x)| (k.clone(), strip_nulls(x)))
                .collect(),
        ),
        Value::Array(a) => Value::Array(a.iter().map(strip_nulls).collect()),
        x => x.clone(),
    }
}

#[derive(Clone, Debug, PartialEq)]
pub enum Then {
    Continue,
    /// the implementation returned an error after (or instead of) replying: closing is acceptable,
    /// going on is acceptable too
    MayClose,
}

/// a call that must have reached a scripted interface
#[derive(Clone, Debug, PartialEq)]
pub struct Dispatch {
    pub iface: String,
    pub method: String,
    pub more: bool,
    pub oneway: bool,
    pub upgrade: bool,
    pub params: Option<Value>,
}

#[derive(Clone, Debug)]
pub struct Expect {
    pub replies: Vec<ExpReply>,
    /// replies the service would have sent had the request not been oneway (attribution of C04)
    pub suppressed: Vec<ExpReply>,
    pub then: Then,
    pub upgraded: Option<String>,
    pub dispatch: Option<Dispatch>,
    /// reply content unspecified by any property (at most one error reply, may close)
    pub unspecified: bool,
    /// which clause predicts content: "service", "routing", "scripted", "generated"
    pub kind: &'static str,
}

fn err_reply(name: &str, params: Value) -> Value {
    json!({"error": name, "parameters": params})
}

pub fn expect(cfg: &SvcCfg, r: &ReqView) -> Expect {
    let mut e = expect_inner(cfg, r);
    if r.oneway {
        e.suppressed = std::mem::take(&mut e.replies);
    }
    e
}

fn plain(replies: Vec<ExpReply>, kind: &'static str) -> Expect {
    Expect {
        replies,
        suppressed: vec![],
        then: Then::Continue,
        upgraded: None,
        dispatch: None,
        unspecified: false,
        kind,
    }
}

fn expect_inner(cfg: &SvcCfg, r: &ReqView) -> Expect {
    let m = r.method.as_str();
    let dot = match m.rfind('.') {
        None => {
            return plain(
                vec![ExpReply::Exact(err_reply(
                    "org.varlink.service.InterfaceNotFound",
                    json!({ "interface": m }),
                ))],
                "routing",
            )
        }
        Some(d) => d,
    };
    let iface = &m[..dot];
    let mname = &m[dot + 1..];
    if iface == SVC {
        return match mname {
            "GetInfo" => plain(
                vec![ExpReply::Info {
                    vendor: cfg.vendor.clone(),
                    product: cfg.product.clone(),
                    version: cfg.version.clone(),
                    url: cfg.url.clone(),
                    rest: cfg.registered(),
                }],
                "service",
            ),
            "GetInterfaceDescription" => match &r.params {
                None => plain(
                    vec![ExpReply::Exact(err_reply(
                        "org.varlink.service.InvalidParameter",
                        json!({"parameter": "parameters"}),
                    ))],
                    "service",
                ),
                Some(p) => {
                    let name = match p {
                        Value::Object(o) => match o.get("interface") {
                            Some(Value::String(s)) => Some(s.clone()),
                            _ => None,
                        },
                        _ => None,
                    };
                    match name {
                        None => {
                            // ill-typed parameters: no property says what happens
                            let mut e = plain(vec![], "service");
                            e.unspecified = true;
                            e.then = Then::MayClose;
                            e
                        }
                        Some(n) if n == SVC => plain(
                            vec![ExpReply::Exact(
                                json!({"parameters": {"description": SVC_DESCRIPTION}}),
                            )],
                            "service",
                        ),
                        Some(n) if cfg.registered().contains(&n) => {
                            let text = if cfg.is_scripted(&n) {
                                scripted_description(&n)
                            } else {
                                idl_text(&n)
                            };
                            plain(
                                vec![ExpReply::Exact(json!({"parameters": {"description": text}}))],
                                "service",
                            )
                        }
                        Some(_) => plain(
                            vec![ExpReply::Exact(err_reply(
                                "org.varlink.service.InvalidParameter",
                                json!({"parameter": "interface"}),
                            ))],
                            "service",
                        ),
                    }
                }
            },
            _ => plain(
                vec![ExpReply::Exact(err_reply(
                    "org.varlink.service.MethodNotFound",
                    json!({ "method": m }),
                ))],
                "service",
            ),
        };
    }
    if cfg.is_scripted(iface) {
        return scripted_expect(iface, mname, r);
    }
    if cfg.ping && iface == PING {
        return ping_expect(mname, r);
    }
    if cfg.more && iface == MORE {
        return more_expect(mname, r);
    }
    plain(
        vec![ExpReply::Exact(err_reply(
            "org.varlink.service.InterfaceNotFound",
            json!({ "interface": iface }),
        ))],
        "routing",
    )
}

pub fn token_of(params: &Option<Value>) -> Value {
    params
        .as_ref()
        .and_then(|p| p.get("token"))
        .cloned()
        .unwrap_or(Value::Null)
}

fn scripted_expect(iface: &str, mname: &str, r: &ReqView) -> Expect {
    let dispatch = Some(Dispatch {
        iface: iface.to_string(),
        method: r.method.clone(),
        more: r.more,
        oneway: r.oneway,
        upgrade: r.upgrade,
        params: r.params.clone(),
    });
    let token = token_of(&r.params);
    let mut e = match mname {
        "Echo" => plain(
            vec![ExpReply::Exact(json!({"parameters": {
                "token": token,
                "iface": iface,
                "params": r.params.clone().unwrap_or(Value::Null),
                "flags": [r.more, r.oneway, r.upgrade],
            }}))],
            "scripted",
        ),
        "Fail" => plain(
            vec![ExpReply::Exact(err_reply(
                &format!("{}.Failed", iface),
                json!({ "token": token }),
            ))],
            "scripted",
        ),
        "Upgrade" => {
            let mut e = plain(
                vec![ExpReply::Exact(json!({"parameters": {"token": token}}))],
                "scripted",
            );
            e.upgraded = Some(iface.to_string());
            e
        }
        "Script" => script_expect(iface, r, &token),
        "ErrReply" => {
            // the implementation returned Err without replying: the connection may be ended, or the
            // service may pass the error on as the reply - but a oneway call stays unanswered
            let mut e = plain(if r.oneway { vec![ExpReply::AnyError] } else { vec![] }, "scripted");
            e.unspecified = !r.oneway;
            e.then = Then::MayClose;
            e
        }
        _ => plain(
            vec![ExpReply::Exact(err_reply(
                "org.varlink.service.MethodNotFound",
                json!({ "method": r.method }),
            ))],
            "routing",
        ),
    };
    e.dispatch = dispatch;
    e
}

/// script ops: "c1" "c0" set_continues; "r" reply; "e" reply_error; suffix '!' = ignore the
/// result of the reply call and go on (default: propagate the error like `?` would)
fn script_expect(iface: &str, r: &ReqView, token: &Value) -> Expect {
    let ops: Vec<String> = r
        .params
        .as_ref()
        .and_then(|p| p.get("script"))
        .and_then(|s| s.as_array())
        .map(|a| a.iter().filter_map(|x| x.as_str().map(String::from)).collect())
        .unwrap_or_default();
    let mut e = plain(vec![], "scripted");
    let mut cont = false;
    let mut i = 0u64;
    for op in &ops {
        let (base, ignore) = match op.strip_suffix('!') {
            Some(b) => (b, true),
            None => (op.as_str(), false),
        };
        match base {
            "c1" => cont = true,
            "c0" => cont = false,
            // to_upgraded(): the connection belongs to the interface once the call is over; what the
            // call may reply is not affected
            "u" => e.upgraded = Some(iface.to_string()),
            "r" | "e" | "ei" | "em" | "en" => {
                let idx = i;
                i += 1;
                if cont && !r.more {
                    // gate: CallContinuesMismatch, nothing written
                    if !ignore {
                        // the implementation returns the error: the call fails, no upgrade takes place
                        e.then = Then::MayClose;
                        e.upgraded = None;
                        break;
                    }
                    continue;
                }
                let arg = format!("{}#{}", token.as_str().unwrap_or(""), idx);
                let mut v = if base == "r" {
                    json!({"parameters": {"token": token, "i": idx}})
                } else if base == "ei" {
                    err_reply("org.varlink.service.InvalidParameter", json!({"parameter": arg}))
                } else if base == "em" {
                    err_reply("org.varlink.service.MethodNotFound", json!({"method": arg}))
                } else if base == "en" {
                    err_reply("org.varlink.service.MethodNotImplemented", json!({"method": arg}))
                } else {
                    err_reply(
                        &format!("{}.ScriptError", iface),
                        json!({"token": token, "i": idx}),
                    )
                };
                if cont {
                    v.as_object_mut()
                        .unwrap()
                        .insert("continues".into(), Value::Bool(true));
                }
                e.replies.push(ExpReply::Exact(v));
            }
            _ => {}
        }
    }
    e
}

fn generated_args(
    r: &ReqView,
    check: impl Fn(&serde_json::Map<String, Value>) -> bool,
) -> Result<(), Expect> {
    match &r.params {
        None => Err(plain(
            vec![ExpReply::Exact(err_reply(
                "org.varlink.service.InvalidParameter",
                json!({"parameter": "parameters"}),
            ))],
            "generated",
        )),
        Some(Value::Object(o)) if check(o) => Ok(()),
        Some(Value::Array(_)) => {
            // a derived struct visitor also accepts a sequence; no property speaks to it
            let mut e = plain(vec![], "generated");
            e.unspecified = true;
            e.then = Then::MayClose;
            Err(e)
        }
        Some(_) => {
            let mut e = plain(vec![ExpReply::InvalidParamAny], "generated");
            e.then = Then::MayClose;
            Err(e)
        }
    }
}

fn ping_expect(mname: &str, r: &ReqView) -> Expect {
    match mname {
        "Ping" => {
            if let Err(e) = generated_args(r, |o| o.get("ping").map_or(false, |p| p.is_string())) {
                return e;
            }
            let ping = r.params.as_ref().unwrap()["ping"].clone();
            plain(
                vec![ExpReply::Exact(json!({"parameters": {"pong": ping}}))],
                "generated",
            )
        }
        "Upgrade" => {
            let mut e = plain(vec![ExpReply::Exact(json!({}))], "generated");
            e.upgraded = Some(PING.to_string());
            e
        }
        _ => plain(
            vec![ExpReply::Exact(err_reply(
                "org.varlink.service.MethodNotFound",
                json!({ "method": r.method }),
            ))],
            "routing",
        ),
    }
}

fn more_expect(mname: &str, r: &ReqView) -> Expect {
    match mname {
        "Ping" => {
            if let Err(e) = generated_args(r, |o| o.get("ping").map_or(false, |p| p.is_string())) {
                return e;
            }
            let ping = r.params.as_ref().unwrap()["ping"].clone();
            plain(
                vec![ExpReply::Exact(json!({"parameters": {"pong": ping}}))],
                "generated",
            )
        }
        "StopServing" => plain(vec![ExpReply::Exact(json!({}))], "generated"),
        "TestMore" => {
            if let Err(e) = generated_args(r, |o| o.get("n").map_or(false, |p| p.is_i64())) {
                return e;
            }
            let n = r.params.as_ref().unwrap()["n"].as_i64().unwrap();
            if !r.more {
                return plain(
                    vec![ExpReply::Exact(err_reply(
                        "org.example.more.TestMoreError",
                        json!({"reason": "called without more"}),
                    ))],
                    "generated",
                );
            }
            let mut v = vec![ExpReply::Loose(
                json!({"continues": true, "parameters": {"state": {"start": true}}}),
            )];
            for i in 0..n.clamp(0, 64) {
                v.push(ExpReply::Loose(
                    json!({"continues": true, "parameters": {"state": {"progress": i}}}),
                ));
            }
            v.push(ExpReply::Loose(json!({"parameters": {"state": {"end": true}}})));
            plain(v, "generated")
        }
        _ => plain(
            vec![ExpReply::Exact(err_reply(
                "org.varlink.service.MethodNotFound",
                json!({ "method": r.method }),
            ))],
            "routing",
        ),
    }
}

// ---------------------------------------------------------------------------------------------
// whole-stream model

/// independent splitter: complete NUL-terminated messages and the incomplete remainder
pub fn split_nul(stream: &[u8]) -> (Vec<&[u8]>, &[u8]) {
    let mut msgs = Vec::new();
    let mut start = 0;
    for (i, b) in stream.iter().enumerate() {
        if *b == 0 {
            msgs.push(&stream[start..i]);
            start = i + 1;
        }
    }
    (msgs, &stream[start..])
}

#[derive(Clone, Debug, PartialEq)]
pub enum End {
    /// every complete message was processed, connection still open; `tail` = incomplete remainder
    Open { tail: Vec<u8> },
    /// the service ended the connection after message index `at` (malformed or implementation error)
    Closed { at: usize, malformed: bool },
    /// message index `at` upgraded the connection to `iface`; `rest` are the bytes that follow it
    Upgraded { at: usize, iface: String, rest: Vec<u8> },
}

#[derive(Clone, Debug)]
pub struct ExpItem {
    pub reply: ExpReply,
    /// index of the message that owns this reply
    pub owner: usize,
    /// this reply exists only in the hypothetical "oneway answered" stream
    pub oneway_hypo: bool,
}

#[derive(Clone, Debug)]
pub struct Alt {
    pub items: Vec<ExpItem>,
    pub end: End,
    pub dispatches: Vec<Dispatch>,
    /// message indices whose reply content is unspecified (0..1 error reply accepted)
    pub unspecified: Vec<usize>,
    /// from this message index on nothing can be predicted (gray message accepted in an unknown way)
    pub unpredictable_from: Option<usize>,
}

#[derive(Clone, Debug)]
pub struct MsgInfo {
    pub class: Class,
    pub start: usize,
    pub end: usize, // index one past the NUL
}

#[derive(Clone, Debug)]
pub struct StreamModel {
    pub msgs: Vec<MsgInfo>,
    pub alts: Vec<Alt>,
    pub has_gray: bool,
    pub has_malformed: bool,
    /// too many alternatives to track: content oracles must treat the stream as unpredictable
    pub overflow: bool,
}

const MAX_ALTS: usize = 32;

pub fn model_stream(cfg: &SvcCfg, stream: &[u8]) -> StreamModel {
    let (raw, tail) = split_nul(stream);
    let mut msgs = Vec::new();
    let mut pos = 0usize;
    for m in &raw {
        msgs.push(MsgInfo {
            class: classify(m),
            start: pos,
            end: pos + m.len() + 1,
        });
        pos += m.len() + 1;
    }
    let has_gray = msgs.iter().any(|m| matches!(m.class, Class::Gray(..)));
    let has_malformed = msgs.iter().any(|m| matches!(m.class, Class::Malformed(_)));
    // (partial alternative, next message index, still running?)
    let mut open: Vec<Alt> = vec![Alt {
        items: vec![],
        end: End::Open { tail: tail.to_vec() },
        dispatches: vec![],
        unspecified: vec![],
        unpredictable_from: None,
    }];
    let mut done: Vec<Alt> = Vec::new();
    let mut overflow = false;
    for (i, mi) in msgs.iter().enumerate() {
        let mut next: Vec<Alt> = Vec::new();
        for alt in open.drain(..) {
            let views: Vec<Option<&ReqView>> = match &mi.class {
                Class::Well(v) => vec![Some(v)],
                Class::Malformed(_) => vec![None],
                Class::Gray(Some(v), _) => vec![None, Some(v)],
                Class::Gray(None, _) => {
                    // branch 1: treated as malformed; branch 2: unpredictable from here on
                    let mut a = alt.clone();
                    a.end = End::Closed { at: i, malformed: true };
                    done.push(a);
                    let mut b = alt.clone();
                    b.unpredictable_from = Some(i);
                    done.push(b);
                    continue;
                }
            };
            for v in views {
                let mut a = alt.clone();
                match v {
                    None => {
                        a.end = End::Closed { at: i, malformed: true };
                        done.push(a);
                    }
                    Some(v) => {
                        let e = expect(cfg, v);
                        for r in &e.replies {
                            a.items.push(ExpItem {
                                reply: r.clone(),
                                owner: i,
                                oneway_hypo: false,
                            });
                        }
                        for r in &e.suppressed {
                            a.items.push(ExpItem {
                                reply: r.clone(),
                                owner: i,
                                oneway_hypo: true,
                            });
                        }
                        if e.unspecified {
                            a.unspecified.push(i);
                        }
                        if let Some(d) = &e.dispatch {
                            a.dispatches.push(d.clone());
                        }
                        if let Some(iface) = &e.upgraded {
                            a.end = End::Upgraded {
                                at: i,
                                iface: iface.clone(),
                                rest: stream[mi.end..].to_vec(),
                            };
                            done.push(a);
                            continue;
                        }
                        if e.then == Then::MayClose {
                            let mut c = a.clone();
                            c.end = End::Closed { at: i, malformed: false };
                            done.push(c);
                        }
                        next.push(a);
                    }
                }
            }
        }
        open = next;
        if open.len() + done.len() > MAX_ALTS {
            overflow = true;
            break;
        }
        if open.is_empty() {
            break;
        }
    }
    done.extend(open);
    StreamModel {
        msgs,
        alts: done,
        has_gray,
        has_malformed,
        overflow,
    }
}
