//! Batch runner, evidence writer, replay files and known-findings handling, shared by all checks.

use std::collections::{BTreeMap, BTreeSet};
use std::sync::atomic::{AtomicU64, Ordering};
use std::sync::Mutex;
use std::time::Instant;

use serde_derive::{Deserialize, Serialize};
use serde_json::{json, Value};

use crate::oracle::Violation;

#[derive(Clone, Copy, Debug, PartialEq)]
pub enum Tier {
    Quick,
    Thorough,
}
impl Tier {
    pub fn name(self) -> &'static str {
        match self {
            Tier::Quick => "quick",
            Tier::Thorough => "thorough",
        }
    }
}

/// What one simulated run reports back.
#[derive(Default, Debug)]
pub struct RunResult {
    pub violations: Vec<Violation>,
    /// distinctness signature of the explored case (input + faults fired + schedule where applicable)
    pub sig: u64,
    pub nontrivial: bool,
    /// fault kind → times it actually fired
    pub faults: Vec<(&'static str, u64)>,
    /// rare-branch probes hit
    pub probes: Vec<(&'static str, u64)>,
    pub sim_ms: u64,
    pub steps: u64,
    /// canonical event-log hash (determinism checks)
    pub log_hash: u64,
    pub inconclusive: bool,
    /// a printable description of the case, used for evidence samples
    pub sample: Option<Value>,
}

#[derive(Default)]
pub struct Agg {
    pub evaluations: u64,
    pub sigs: BTreeSet<u64>,
    pub nontrivial_sigs: BTreeSet<u64>,
    pub faults: BTreeMap<String, u64>,
    pub probes: BTreeMap<String, u64>,
    pub sim_ms: u64,
    pub steps: u64,
    pub max_steps_one_run: u64,
    pub inconclusive: u64,
    pub other_props: BTreeMap<String, u64>,
    /// first detail seen per (other property, clause)
    pub other_details: BTreeMap<String, String>,
    pub samples: BTreeMap<u64, Value>,
    /// (run index, violations of the property under check)
    pub failures: BTreeMap<u64, Vec<Violation>>,
    pub log_fold: u64,
    /// runs in which the harness itself panicked (generator, environment or oracle, outside the
    /// simulated execution): (lowest index, message). Nothing such a batch reports can be believed.
    pub harness_panics: u64,
    pub first_harness_panic: Option<(u64, String)>,
    /// the batch was cut short because so many runs had failed already (every abandoned execution -
    /// livelock, deadlock, panic - leaks its coroutine stacks, a batch in which every run fails would
    /// otherwise eat the machine's memory)
    pub stopped_early: bool,
}

impl Agg {
    pub fn absorb(&mut self, prop: &str, index: u64, r: RunResult, keep_samples: usize) {
        self.evaluations += 1;
        self.sigs.insert(r.sig);
        if r.nontrivial {
            self.nontrivial_sigs.insert(r.sig);
        }
        for (k, n) in &r.faults {
            if *n > 0 {
                *self.faults.entry(k.to_string()).or_default() += n;
            }
        }
        for (k, n) in &r.probes {
            if *n > 0 {
                *self.probes.entry(k.to_string()).or_default() += n;
            }
        }
        self.sim_ms += r.sim_ms;
        self.steps += r.steps;
        self.max_steps_one_run = self.max_steps_one_run.max(r.steps);
        if r.inconclusive {
            self.inconclusive += 1;
        }
        // order-independent fold of the per-run log hashes
        self.log_fold = self
            .log_fold
            .wrapping_add(r.log_hash.wrapping_mul(0x9E37_79B9_7F4A_7C15) ^ index);
        let mut mine = Vec::new();
        for v in r.violations {
            if v.prop == prop {
                mine.push(v);
            } else {
                *self.other_props.entry(v.prop.to_string()).or_default() += 1;
                self.other_details
                    .entry(format!("{} {}", v.prop, v.clause))
                    .or_insert_with(|| format!("run {}: {}", index, v.detail.chars().take(400).collect::<String>()));
            }
        }
        if !mine.is_empty() {
            self.failures.insert(index, mine);
        }
        if let Some(s) = r.sample {
            if self.samples.len() < keep_samples || self.samples.keys().next_back().map_or(false, |k| *k > index) {
                self.samples.insert(index, s);
                while self.samples.len() > keep_samples {
                    let last = *self.samples.keys().next_back().unwrap();
                    self.samples.remove(&last);
                }
            }
        }
    }
    pub fn merge(&mut self, o: Agg, keep_samples: usize) {
        self.evaluations += o.evaluations;
        self.sigs.extend(o.sigs);
        self.nontrivial_sigs.extend(o.nontrivial_sigs);
        for (k, v) in o.faults {
            *self.faults.entry(k).or_default() += v;
        }
        for (k, v) in o.probes {
            *self.probes.entry(k).or_default() += v;
        }
        for (k, v) in o.other_props {
            *self.other_props.entry(k).or_default() += v;
        }
        for (k, v) in o.other_details {
            self.other_details.entry(k).or_insert(v);
        }
        self.sim_ms += o.sim_ms;
        self.steps += o.steps;
        self.max_steps_one_run = self.max_steps_one_run.max(o.max_steps_one_run);
        self.inconclusive += o.inconclusive;
        self.log_fold = self.log_fold.wrapping_add(o.log_fold);
        self.harness_panics += o.harness_panics;
        self.stopped_early |= o.stopped_early;
        match (&self.first_harness_panic, o.first_harness_panic) {
            (Some((a, _)), Some((b, m))) if b < *a => self.first_harness_panic = Some((b, m)),
            (None, Some(x)) => self.first_harness_panic = Some(x),
            _ => {}
        }
        self.failures.extend(o.failures);
        for (k, v) in o.samples {
            self.samples.insert(k, v);
        }
        while self.samples.len() > keep_samples {
            let last = *self.samples.keys().next_back().unwrap();
            self.samples.remove(&last);
        }
    }
}

pub fn threads() -> usize {
    std::env::var("VERIF_THREADS")
        .ok()
        .and_then(|s| s.parse().ok())
        .unwrap_or_else(|| {
            std::thread::available_parallelism()
                .map(|n| n.get())
                .unwrap_or(4)
                .min(16)
        })
}

// ---------------------------------------------------------------------------------------------
// in-flight table: which run index every worker is executing right now and since when. The
// supervising parent process reads it when the child dies from a signal (stack overflow, abort) or
// stops making progress (a simulated thread blocked the whole process on a lock that is not under
// the scheduler's control, or an endless computation), and then finds the culprit by re-running the
// in-flight indices one by one.

pub const INFLIGHT_SLOTS: usize = 64;
pub const NO_INDEX: u64 = u64::MAX;

pub struct Inflight {
    file: Option<std::fs::File>,
    slot: AtomicU64,
}

impl Inflight {
    pub fn from_env() -> Inflight {
        let file = std::env::var("VSIM_INFLIGHT").ok().and_then(|p| std::fs::OpenOptions::new().write(true).open(p).ok());
        Inflight { file, slot: AtomicU64::new(0) }
    }
    pub fn claim_slot(&self) -> usize {
        (self.slot.fetch_add(1, Ordering::Relaxed) as usize) % INFLIGHT_SLOTS
    }
    pub fn set(&self, slot: usize, index: u64) {
        use std::os::unix::fs::FileExt;
        if let Some(f) = &self.file {
            let now = std::time::SystemTime::now().duration_since(std::time::UNIX_EPOCH).map(|d| d.as_millis() as u64).unwrap_or(0);
            let mut b = [0u8; 16];
            b[..8].copy_from_slice(&index.to_le_bytes());
            b[8..].copy_from_slice(&now.to_le_bytes());
            let _ = f.write_at(&b, (slot * 16) as u64);
        }
    }
    pub fn progress(&self, done: u64) {
        use std::os::unix::fs::FileExt;
        if let Some(f) = &self.file {
            let _ = f.write_at(&done.to_le_bytes(), (INFLIGHT_SLOTS * 16) as u64);
        }
    }
}

pub fn inflight_new_file(path: &std::path::Path) -> std::io::Result<()> {
    let mut v = Vec::new();
    for _ in 0..INFLIGHT_SLOTS {
        v.extend_from_slice(&NO_INDEX.to_le_bytes());
        v.extend_from_slice(&0u64.to_le_bytes());
    }
    v.extend_from_slice(&0u64.to_le_bytes());
    std::fs::write(path, v)
}

/// (slot records: (index, start ms)), runs completed
pub fn inflight_read(path: &std::path::Path) -> (Vec<(u64, u64)>, u64) {
    let b = std::fs::read(path).unwrap_or_default();
    let mut v = Vec::new();
    for s in 0..INFLIGHT_SLOTS {
        if b.len() >= (s + 1) * 16 {
            let i = u64::from_le_bytes(b[s * 16..s * 16 + 8].try_into().unwrap());
            let t = u64::from_le_bytes(b[s * 16 + 8..s * 16 + 16].try_into().unwrap());
            if i != NO_INDEX {
                v.push((i, t));
            }
        }
    }
    let done = if b.len() >= INFLIGHT_SLOTS * 16 + 8 {
        u64::from_le_bytes(b[INFLIGHT_SLOTS * 16..INFLIGHT_SLOTS * 16 + 8].try_into().unwrap())
    } else {
        0
    };
    (v, done)
}

/// Run `n` indexed cases on all cores. `f(index)` must be a pure function of the index (and the
/// base seed captured by the closure) so the batch is reproducible at any worker count.
pub fn run_batch<F>(prop: &'static str, n: u64, keep_samples: usize, f: F) -> Agg
where
    F: Fn(u64) -> RunResult + Sync,
{
    let next = AtomicU64::new(0);
    let done = AtomicU64::new(0);
    let failing = AtomicU64::new(0);
    let abandoned = AtomicU64::new(0);
    let fail_cap: u64 = std::env::var("VSIM_FAIL_CAP").ok().and_then(|s| s.parse().ok()).unwrap_or(600);
    let inflight = Inflight::from_env();
    let total = Mutex::new(Agg::default());
    let nthreads = threads().max(1);
    // std::thread::scope would do; plain spawn keeps the big-stack option open
    // an OS thread that hosted a failed (panicked / deadlocked) shuttle execution is retired and
    // replaced: the coroutine runtime keeps per-thread state that a torn-down execution may leave behind
    let worker = || {
        let mut local = Agg::default();
        let mut retire = false;
        let slot = inflight.claim_slot();
        loop {
            let i = next.fetch_add(1, Ordering::Relaxed);
            if i >= n {
                break;
            }
            inflight.set(slot, i);
            let r = match std::panic::catch_unwind(std::panic::AssertUnwindSafe(|| f(i))) {
                Ok(r) => r,
                Err(p) => {
                    // a panic that escaped the simulated execution is a defect of the harness
                    let msg = p
                        .downcast_ref::<String>()
                        .cloned()
                        .or_else(|| p.downcast_ref::<&str>().map(|s| s.to_string()))
                        .unwrap_or_else(|| "non-string panic".into());
                    local.harness_panics += 1;
                    if local.first_harness_panic.as_ref().map_or(true, |(j, _)| i < *j) {
                        local.first_harness_panic = Some((i, msg));
                    }
                    inflight.set(slot, NO_INDEX);
                    done.fetch_add(1, Ordering::Relaxed);
                    retire = true;
                    break;
                }
            };
            inflight.set(slot, NO_INDEX);
            let d = done.fetch_add(1, Ordering::Relaxed) + 1;
            if d % 256 == 0 {
                inflight.progress(d);
            }
            // enough evidence: no new runs are started after `fail_cap` runs that violate the property
            // under check, or after 2000 abandoned executions whatever property they are attributed to
            let mine = r.violations.iter().any(|v| v.prop == prop);
            let abandoned_run = r.violations.iter().any(|v| matches!(v.clause.as_str(), "livelock" | "deadlock" | "panic"));
            if (mine && failing.fetch_add(1, Ordering::Relaxed) + 1 >= fail_cap)
                || (abandoned_run && abandoned.fetch_add(1, Ordering::Relaxed) + 1 >= 2000)
            {
                next.store(n, Ordering::Relaxed);
                local.stopped_early = true;
            }
            local.absorb(prop, i, r, keep_samples);
            if crate::sched::take_retire() {
                retire = true;
                break;
            }
        }
        total.lock().unwrap().merge(local, keep_samples);
        retire
    };
    std::thread::scope(|s| {
        for _ in 0..nthreads {
            let worker = &worker;
            std::thread::Builder::new()
                .stack_size(16 << 20)
                .spawn_scoped(s, move || loop {
                    let again = std::thread::scope(|s2| {
                        std::thread::Builder::new()
                            .stack_size(64 << 20)
                            .spawn_scoped(s2, worker)
                            .expect("spawn worker")
                            .join()
                            .unwrap_or(true)
                    });
                    if !again {
                        break;
                    }
                })
                .expect("spawn supervisor");
        }
    });
    total.into_inner().unwrap()
}

// ---------------------------------------------------------------------------------------------
// known findings

#[derive(Clone, Debug, Serialize, Deserialize)]
pub struct Finding {
    pub property: String,
    /// the violated clause this finding is about
    pub clause: String,
    /// substring that identifies the specific failing input / call site / history in the violation detail
    pub needle: String,
    pub what: String,
}

#[derive(Clone, Debug, Serialize, Deserialize, Default)]
pub struct KnownFindings {
    #[serde(default)]
    pub findings: Vec<Finding>,
    /// "fixed: property=<id> <commit> <what failed>" lines; informational, suppress nothing
    #[serde(default)]
    pub fixed: Vec<String>,
}

pub fn load_known() -> KnownFindings {
    let p = verif_dir().join("known_findings.json");
    match std::fs::read_to_string(&p) {
        Ok(s) => serde_json::from_str(&s).unwrap_or_else(|e| {
            println!("harness error: {} does not parse: {}", p.display(), e);
            std::process::exit(2);
        }),
        Err(_) => KnownFindings::default(),
    }
}

pub fn verif_dir() -> std::path::PathBuf {
    std::env::var("VERIF_DIR")
        .map(std::path::PathBuf::from)
        .unwrap_or_else(|_| std::path::PathBuf::from("/verif"))
}

impl KnownFindings {
    pub fn matches(&self, prop: &str, v: &Violation) -> Option<&Finding> {
        self.findings
            .iter()
            .find(|f| f.property == prop && f.clause == v.clause && v.detail.contains(&f.needle))
    }
}

// ---------------------------------------------------------------------------------------------
// evidence

pub struct EvidenceMeta {
    pub prop: &'static str,
    pub tier: Tier,
    pub seed: u64,
    pub level: &'static str,
    pub rule: String,
    pub exhaustive: bool,
    pub components_real: Vec<&'static str>,
    pub components_stub: Vec<&'static str>,
    pub assumptions: Vec<String>,
    pub extra: Value,
}

pub fn write_evidence(meta: &EvidenceMeta, agg: &Agg, wall_s: f64, violations: u64, known: &[String]) {
    let dir = verif_dir().join("evidence");
    let _ = std::fs::create_dir_all(&dir);
    let path = dir.join(format!("{}.json", meta.prop));
    let samples: Vec<Value> = agg.samples.values().cloned().collect();
    let runs_per_hour = if wall_s > 0.0 {
        (agg.evaluations as f64 / wall_s * 3600.0) as u64
    } else {
        0
    };
    let ev = json!({
        "property_id": meta.prop,
        "tier": meta.tier.name(),
        "seed": meta.seed,
        "level": meta.level,
        "coverage": {
            "evaluations": agg.evaluations,
            "distinct_nontrivial": agg.nontrivial_sigs.len(),
            "distinct_cases": agg.sigs.len(),
            "rule": meta.rule,
            "samples": samples,
            "exhaustive": meta.exhaustive,
            "runs_per_hour": runs_per_hour,
            "seeds_per_hour": runs_per_hour,
            "simulated_ms_covered": agg.sim_ms,
            "scheduler_steps": agg.steps,
            "max_scheduler_steps_in_one_run": agg.max_steps_one_run,
            "faults_fired": agg.faults,
            "probes_hit": agg.probes,
            "inconclusive_runs": agg.inconclusive,
            "violations_of_other_properties_seen": agg.other_props,
            "event_log_fold": format!("{:016x}", agg.log_fold),
            "components_real_code": meta.components_real,
            "components_stubbed": meta.components_stub,
            "known_findings_reported": known,
            "extra": meta.extra,
        },
        "assumptions": meta.assumptions,
        "wall_s": wall_s,
        "violations": violations,
    });
    let tmp = dir.join(format!("{}.json.tmp", meta.prop));
    std::fs::write(&tmp, serde_json::to_string_pretty(&ev).unwrap()).expect("write evidence");
    std::fs::rename(&tmp, &path).expect("rename evidence");
}

// ---------------------------------------------------------------------------------------------
// replay files

pub fn write_replay(prop: &str, seed: u64, index: u64, body: Value) -> String {
    let dir = verif_dir().join("replays");
    let _ = std::fs::create_dir_all(&dir);
    let path = dir.join(format!("{}-{}-{}.json", prop, seed, index));
    std::fs::write(&path, serde_json::to_string_pretty(&body).unwrap()).expect("write replay");
    path.display().to_string()
}

pub struct Timer(Instant);
impl Timer {
    pub fn start() -> Timer {
        Timer(Instant::now())
    }
    pub fn secs(&self) -> f64 {
        self.0.elapsed().as_secs_f64()
    }
}
