//! Scenario Q: the real certification service (`varlink-certification/src/main.rs`, included as a
//! module: `run_server` -> real `listen`, `CertInterface`, `ClientIds`, the check macros, the
//! generated server proxy) and the real canonical client (`run_client` + generated client stubs) on
//! the simulated network under the controlled scheduler, beside raw deviating clients played by the
//! environment task.

#[allow(dead_code, unused_imports, clippy::all, non_camel_case_types, non_snake_case)]
mod cert {
    include!("/repo/varlink-certification/src/main.rs");

    /// the clock the certification service sees under cfg(varlink_rust_verif)
    pub mod verif_clock {
        use std::time::Duration;
        #[derive(Clone, Copy, Debug, PartialEq)]
        pub struct Instant {
            ns: u64,
        }
        impl Instant {
            pub fn now() -> Instant {
                Instant { ns: crate::qsim::clock_ns() }
            }
            pub fn elapsed(&self) -> Duration {
                Duration::from_nanos(crate::qsim::clock_ns().saturating_sub(self.ns))
            }
        }
    }

    // glue living inside the module so that the private items stay untouched in /repo
    pub fn client(connection: Arc<RwLock<varlink::Connection>>) -> std::result::Result<(), String> {
        run_client(connection).map_err(|e| e.to_string())
    }
}

use std::io::BufReader;
use std::sync::{Arc, Mutex as StdMutex};

use shuttle::sync::RwLock;

use serde_derive::{Deserialize, Serialize};
use serde_json::{json, Map, Value};

use crate::cases::Case;
use crate::model::split_nul;
use crate::net::{client_pair, new_net, ConnOpts, NetRef, SimListenerImpl};
use crate::oracle::{viol, Violation};
use crate::props::{Plan, Space};
use crate::report::{RunResult, Tier};
use crate::rng::{Fnv, Rng};
use crate::sched::{run_sim, wait_quiescent, CtlRef, SchedCfg, SimEnd};

thread_local! {
    /// (simulated network whose clock is read, coarse?, reads so far) for the run on this OS thread
    static CLOCK: std::cell::RefCell<Option<(NetRef, bool, u64)>> = const { std::cell::RefCell::new(None) };
}

/// simulated monotonic clock in nanoseconds: simulated milliseconds plus, unless the run injects a
/// coarse clock, one nanosecond per read (two reads never return the same instant)
pub fn clock_ns() -> u64 {
    CLOCK.with(|c| {
        let mut g = c.borrow_mut();
        match g.as_mut() {
            Some((net, coarse, reads)) => {
                *reads += 1;
                let ms = net.now_mirror.load(std::sync::atomic::Ordering::SeqCst);
                ms * 1_000_000 + if *coarse { 0 } else { *reads }
            }
            None => 0,
        }
    })
}

pub const STEPS: [&str; 13] = [
    "Start", "Test01", "Test02", "Test03", "Test04", "Test05", "Test06", "Test07", "Test08", "Test09", "Test10", "Test11", "End",
];
const IFACE: &str = "org.varlink.certification";

#[derive(Clone, Debug, Serialize, Deserialize, PartialEq)]
pub enum Mut {
    /// replace the value at `path` inside `parameters`
    Set { path: Vec<String>, value: Value },
    Remove { path: Vec<String> },
    /// the flag members exactly as given (None = absent)
    Flags { more: Option<bool>, oneway: Option<bool>, upgrade: Option<bool> },
    /// send the canonical request of another step at this position
    WrongStep { send: usize },
    /// as WrongStep, and afterwards: the canonical request of step send+1 (the refused step must not
    /// have moved the client on: it has to be refused as well), then the canonical request of this
    /// position (which must still pass)
    WrongStepThen { send: usize },
    /// the canonical request of another step and, behind it in the same write, the canonical request
    /// of this position: the first reply group must be an error, the second must pass
    PipelinedWrongStep { send: usize },
    /// the canonical request of another step is first sent on a second connection whose peer never
    /// reads and then goes away (the reply write fails on the server), then again on the client's own
    /// connection: it is a step out of order both times
    WrongStepAfterFailedReply { send: usize },
    /// the whole canonical sequence including End is walked first; then the canonical request of
    /// step `send` (Test01..Test11) is sent under the finished client id: a step out of order
    AfterEnd { send: usize },
    UnknownClientId,
    /// the step under a made-up client id (refused), then Test01 under the same made-up id: refusing an
    /// id must not make it known
    UnknownClientIdTwice,
    NoParameters,
    /// the `parameters` member as a whole replaced by a non-object value
    SetParams(Value),
    /// the canonical request of this step sent twice in one write on the same connection: the
    /// second copy is a step out of order
    Duplicate,
    /// the canonical request of this step sent at the same time on `n` connections under the same
    /// client id: all but one are steps out of order
    Race { n: usize },
}

#[derive(Clone, Debug, Serialize, Deserialize, PartialEq)]
pub struct Deviation {
    pub step: usize,
    pub m: Mut,
}

#[derive(Clone, Debug, Serialize, Deserialize, PartialEq)]
pub struct QCase {
    /// real canonical clients (run_client), each in its own task on its own connection
    pub canonical: usize,
    /// raw clients: canonical prefix, then one deviating request
    pub deviants: Vec<Deviation>,
    /// the raw clients poll by yielding (interleaving with the canonical clients) instead of
    /// waiting for quiescence after every request
    pub interleave: bool,
    /// fault: the service's monotonic clock has millisecond granularity (two reads may be equal)
    #[serde(default)]
    pub coarse_clock: bool,
    /// hostile peers beside everybody else: each pipelines 40 Start calls into a connection whose
    /// replies it never reads (window of a few bytes), so the worker serving it blocks in write()
    #[serde(default)]
    pub stalled: usize,
    /// clock-jump history (with the coarse clock): `old` raw clients start, the clock jumps 13 h (past
    /// the 12 h lifetime of a client id), then `new` raw clients start and walk the canonical
    /// sequence with their steps interleaved in the given order
    #[serde(default)]
    pub jump: Option<(usize, usize, Vec<u8>)>,
    /// long history: a raw client walks to the point where only End is missing, `many` further
    /// clients are started (Start only) on other connections, then the first client sends End
    #[serde(default)]
    pub many: usize,
    /// a raw canonical client pauses `secs` seconds (far below the 12 h lifetime) before step `at`
    #[serde(default)]
    pub pause: Option<(usize, u64)>,
    pub sched: SchedCfg,
}

#[derive(Default, Debug, Clone)]
pub struct DevObs {
    pub reached: bool,
    pub request: Value,
    pub replies: Vec<Value>,
    pub ended: bool,
    pub prefix_failed: Option<String>,
    /// Duplicate / Race: the final reply of every copy
    pub copies: Vec<Option<Value>>,
}

#[derive(Default)]
pub struct QObs {
    pub canon_results: Vec<Option<String>>,
    pub client_ids: Vec<String>,
    pub dev: Vec<DevObs>,
    /// canonical request parameters per step as observed by a raw canonical walk (client id blanked)
    pub canon_params: Vec<Value>,
    pub server_result: Option<String>,
    pub log_hash: u64,
    pub end_time: u64,
    pub finished: bool,
    /// clock-jump history: what went wrong for a client that started after the jump
    pub jump_failures: Vec<String>,
    /// canonical clients that had not finished while the hostile peers were still stalled
    pub unfinished_while_stalled: usize,
}

fn set_path(v: &mut Value, path: &[String], new: Option<Value>) {
    if path.is_empty() {
        if let Some(n) = new {
            *v = n;
        }
        return;
    }
    let k = &path[0];
    match v {
        Value::Object(o) => {
            if path.len() == 1 {
                match new {
                    Some(n) => {
                        o.insert(k.clone(), n);
                    }
                    None => {
                        o.remove(k);
                    }
                }
            } else if let Some(x) = o.get_mut(k) {
                set_path(x, &path[1..], new);
            }
        }
        Value::Array(a) => {
            if let Some(i) = k.strip_prefix('#').and_then(|s| s.parse::<usize>().ok()) {
                if path.len() == 1 {
                    match new {
                        Some(n) => {
                            if i < a.len() {
                                a[i] = n;
                            }
                        }
                        None => {
                            if i < a.len() {
                                a.remove(i);
                            }
                        }
                    }
                } else if let Some(x) = a.get_mut(i) {
                    set_path(x, &path[1..], new);
                }
            }
        }
        _ => {}
    }
}

struct Raw {
    net: NetRef,
    ctl: CtlRef,
    id: usize,
    consumed: usize,
    interleave: bool,
}

impl Raw {
    fn new_frames(&mut self) -> (Vec<Value>, bool) {
        self.net.client_drain(self.id);
        let w = self.net.lock();
        let c = &w.conns[self.id];
        let rx = &c.client_rx[self.consumed..];
        let (frames, _) = split_nul(rx);
        let mut out = Vec::new();
        let mut used = 0;
        for f in frames {
            used += f.len() + 1;
            out.push(serde_json::from_slice::<Value>(f).unwrap_or(Value::Null));
        }
        let ended = c.client_saw_end.is_some();
        drop(w);
        self.consumed += used;
        (out, ended)
    }
    /// send one request and collect its reply group (up to the first frame without continues)
    fn call(&mut self, req: &Value, may_be_silent: bool) -> (Vec<Value>, bool) {
        let mut b = serde_json::to_vec(req).unwrap();
        b.push(0);
        self.net.client_send(self.id, &b);
        let mut got: Vec<Value> = Vec::new();
        let mut ended = false;
        let done = |g: &Vec<Value>| g.last().map_or(false, |f| f.get("continues") != Some(&json!(true)));
        if self.interleave && !may_be_silent {
            for _ in 0..400 {
                shuttle::thread::yield_now();
                let (f, e) = self.new_frames();
                got.extend(f);
                ended |= e;
                if done(&got) || ended {
                    return (got, ended);
                }
            }
        }
        loop {
            wait_quiescent(&self.ctl);
            let (f, e) = self.new_frames();
            let none = f.is_empty();
            got.extend(f);
            ended |= e;
            if done(&got) || ended || none {
                return (got, ended);
            }
        }
    }
}

fn canonical_request(step: usize, client_id: &str, prev: &Value, more_strings: &[String]) -> Value {
    let method = format!("{}.{}", IFACE, STEPS[step]);
    let mut m = Map::new();
    m.insert("method".into(), json!(method));
    if step > 0 {
        let mut p = Map::new();
        p.insert("client_id".into(), json!(client_id));
        if step == 11 {
            p.insert("last_more_replies".into(), json!(more_strings));
        } else if step < 12 && step > 1 {
            if let Some(o) = prev.as_object() {
                for (k, v) in o {
                    p.insert(k.clone(), v.clone());
                }
            }
        }
        m.insert("parameters".into(), Value::Object(p));
    }
    if step == 10 {
        m.insert("more".into(), json!(true));
    }
    if step == 11 {
        m.insert("oneway".into(), json!(true));
    }
    Value::Object(m)
}

fn apply(req: &mut Value, m: &Mut) {
    match m {
        Mut::Set { path, value } => {
            if let Some(p) = req.get_mut("parameters") {
                set_path(p, path, Some(value.clone()));
            }
        }
        Mut::Remove { path } => {
            if let Some(p) = req.get_mut("parameters") {
                set_path(p, path, None);
            }
        }
        Mut::Flags { more, oneway, upgrade } => {
            let o = req.as_object_mut().unwrap();
            for (k, f) in [("more", more), ("oneway", oneway), ("upgrade", upgrade)] {
                match f {
                    Some(b) => {
                        o.insert(k.into(), json!(b));
                    }
                    None => {
                        o.remove(k);
                    }
                }
            }
        }
        Mut::UnknownClientId | Mut::UnknownClientIdTwice => {
            if let Some(p) = req.get_mut("parameters").and_then(|p| p.as_object_mut()) {
                p.insert("client_id".into(), json!("0123456789abcdef"));
            }
        }
        Mut::NoParameters => {
            req.as_object_mut().unwrap().remove("parameters");
        }
        Mut::SetParams(v) => {
            req.as_object_mut().unwrap().insert("parameters".into(), v.clone());
        }
        Mut::WrongStep { .. } | Mut::WrongStepThen { .. } | Mut::PipelinedWrongStep { .. } | Mut::WrongStepAfterFailedReply { .. } | Mut::AfterEnd { .. } | Mut::Duplicate | Mut::Race { .. } => {}
    }
}

/// walk the canonical sequence on a raw connection up to (not including) `upto`; returns
/// (client id, parameters of the last reply, strings of the Test10 stream, observed canonical params)
#[allow(clippy::type_complexity)]
fn walk(raw: &mut Raw, upto: usize, record: &mut Vec<Value>) -> Result<(String, Value, Vec<String>), String> {
    let mut client_id = String::new();
    let mut prev = Value::Null;
    let mut strings: Vec<String> = Vec::new();
    for step in 0..upto {
        let req = canonical_request(step, &client_id, &prev, &strings);
        let mut blank = req.get("parameters").cloned().unwrap_or(Value::Null);
        if let Some(o) = blank.as_object_mut() {
            if o.contains_key("client_id") {
                o.insert("client_id".into(), json!("<id>"));
            }
        }
        if record.len() <= step {
            record.push(blank);
        }
        let (replies, ended) = raw.call(&req, step == 11);
        if step == 11 {
            if !replies.is_empty() {
                return Err(format!("canonical Test11 (oneway) was answered: {}", replies[0]));
            }
            continue;
        }
        let last = replies.last().cloned().unwrap_or(Value::Null);
        if last.get("error").is_some() || replies.is_empty() || ended {
            return Err(format!("canonical step {} failed on the raw client: {:?} ended={}", STEPS[step], replies.last(), ended));
        }
        if step == 0 {
            client_id = last["parameters"]["client_id"].as_str().unwrap_or("").to_string();
        }
        if step == 10 {
            strings = replies.iter().filter_map(|r| r["parameters"]["string"].as_str().map(String::from)).collect();
        }
        prev = last.get("parameters").cloned().unwrap_or(Value::Null);
    }
    Ok((client_id, prev, strings))
}

pub fn run_q(case: &QCase) -> (SimEnd, crate::sched::SimStats, QObs) {
    let out: Arc<StdMutex<QObs>> = Arc::new(StdMutex::new(QObs::default()));
    let out2 = out.clone();
    let c = case.clone();
    let (end, stats) = run_sim(&case.sched, move |ctl| {
        let net = new_net();
        CLOCK.with(|k| *k.borrow_mut() = Some((net.clone(), c.coarse_clock, 0)));
        varlink::verif::register("q", Arc::new(SimListenerImpl { net: net.clone() }));
        let srv_out = out2.clone();
        let server = shuttle::thread::spawn(move || {
            let r = cert::run_server("sim:q", 1);
            srv_out.lock().unwrap().server_result = Some(match r {
                Ok(()) => "Ok".into(),
                Err(e) => format!("Err({:?})", e.kind()),
            });
        });
        {
            let mut o = out2.lock().unwrap();
            o.canon_results = vec![None; c.canonical];
            o.dev = vec![DevObs::default(); c.deviants.len()];
        }
        // hostile peers that never read
        let mut stalled_ids = Vec::new();
        for _ in 0..c.stalled {
            let id = net.connect(ConnOpts { s2c_cap: 48, ..Default::default() });
            let mut b = serde_json::to_vec(&json!({"method": format!("{}.Start", IFACE)})).unwrap();
            b.push(0);
            let mut all = Vec::new();
            for _ in 0..40 {
                all.extend_from_slice(&b);
            }
            net.client_send(id, &all);
            stalled_ids.push(id);
        }
        // clock-jump history
        {
            struct Walker {
                raw: Raw,
                client_id: String,
                prev: Value,
                strings: Vec<String>,
                next: usize,
            }
            let mut step = |w: &mut Walker| -> Result<(), String> {
                let req = canonical_request(w.next, &w.client_id, &w.prev, &w.strings);
                let (replies, ended) = w.raw.call(&req, w.next == 11);
                let st = w.next;
                w.next += 1;
                if st == 11 {
                    return if replies.is_empty() { Ok(()) } else { Err(format!("Test11 (oneway) answered: {}", replies[0])) };
                }
                let last = replies.last().cloned().unwrap_or(Value::Null);
                if last.get("error").is_some() || replies.is_empty() || ended {
                    return Err(format!("canonical step {} failed: {}", STEPS[st], last));
                }
                if st == 0 {
                    w.client_id = last["parameters"]["client_id"].as_str().unwrap_or("").to_string();
                }
                if st == 10 {
                    w.strings = replies.iter().filter_map(|r| r["parameters"]["string"].as_str().map(String::from)).collect();
                }
                w.prev = last.get("parameters").cloned().unwrap_or(Value::Null);
                Ok(())
            };
            let mk = |net: &NetRef, ctl: &CtlRef| Walker {
                raw: Raw { net: net.clone(), ctl: ctl.clone(), id: net.connect(ConnOpts::default()), consumed: 0, interleave: false },
                client_id: String::new(),
                prev: Value::Null,
                strings: vec![],
                next: 0,
            };
            // a pause in mid-sequence that is far shorter than the 12 h lifetime of a client id: the
            // client keeps its connection open, the clock moves on, the sequence is continued
            if let Some((at, secs)) = &c.pause {
                let mut w = mk(&net, &ctl);
                let mut fails = Vec::new();
                while w.next < 13 {
                    if w.next == *at {
                        wait_quiescent(&ctl);
                        let now = net.lock().now;
                        net.set_clock(now + secs * 1000, false);
                    }
                    if let Err(e) = step(&mut w) {
                        fails.push(format!("a canonical client that paused {} s before {}: {}", secs, STEPS[*at], e));
                        break;
                    }
                }
                net.client_half_close(w.raw.id);
                out2.lock().unwrap().jump_failures.extend(fails);
            }
            if let Some((old, new, order)) = &c.jump {
            let mut olds: Vec<Walker> = (0..*old).map(|_| mk(&net, &ctl)).collect();
            for w in olds.iter_mut() {
                let _ = step(w);
                if w.next < 3 {
                    let _ = step(w);
                }
            }
            // 13 hours later
            wait_quiescent(&ctl);
            let now = net.lock().now;
            net.set_clock(now + 13 * 3600 * 1000, false);
            let mut news: Vec<Walker> = (0..*new).map(|_| mk(&net, &ctl)).collect();
            let mut fails = Vec::new();
            for k in order {
                let i = *k as usize % news.len().max(1);
                if let Some(w) = news.get_mut(i) {
                    if w.next < 13 {
                        if let Err(e) = step(w) {
                            fails.push(e);
                            w.next = 13;
                        }
                    }
                }
            }
            for w in olds.iter().chain(news.iter()) {
                net.client_half_close(w.raw.id);
            }
            out2.lock().unwrap().jump_failures.extend(fails.into_iter().map(|e| format!("a client that started after the clock jump: {}", e)));
            }
        }
        // long history: many client ids issued while one client is about to finish
        if c.many > 0 {
            let id = net.connect(ConnOpts::default());
            let mut raw = Raw { net: net.clone(), ctl: ctl.clone(), id, consumed: 0, interleave: false };
            let mut rec = Vec::new();
            match walk(&mut raw, 12, &mut rec) {
                Err(e) => out2.lock().unwrap().jump_failures.push(e),
                Ok((client_id, prev, strings)) => {
                    let other = net.connect(ConnOpts::default());
                    let mut r2 = Raw { net: net.clone(), ctl: ctl.clone(), id: other, consumed: 0, interleave: false };
                    let start = json!({"method": format!("{}.Start", IFACE)});
                    for _ in 0..c.many {
                        let _ = r2.call(&start, false);
                    }
                    let end_req = canonical_request(12, &client_id, &prev, &strings);
                    let (replies, _) = raw.call(&end_req, false);
                    let last = replies.last().cloned().unwrap_or(Value::Null);
                    if last.get("error").is_some() || replies.is_empty() {
                        out2.lock().unwrap().jump_failures.push(format!(
                            "a canonical client's End, sent after {} other clients had started, was refused: {}",
                            c.many, last
                        ));
                    }
                    net.client_half_close(other);
                }
            }
            net.client_half_close(id);
        }
        // real canonical clients
        let mut handles = Vec::new();
        for k in 0..c.canonical {
            let id = net.connect(ConnOpts::default());
            let (r, w) = client_pair(&net, id);
            let res = out2.clone();
            handles.push(shuttle::thread::spawn(move || {
                let mut cn = varlink::Connection::default();
                cn.reader = Some(BufReader::new(Box::new(r)));
                cn.writer = Some(Box::new(w));
                let conn = Arc::new(RwLock::new(cn));
                let r = cert::client(conn);
                res.lock().unwrap().canon_results[k] = Some(match r {
                    Ok(()) => "Ok".into(),
                    Err(e) => format!("Err({})", e),
                });
            }));
        }
        // raw deviating clients, one after the other (each on its own connection)
        let mut canon_params: Vec<Value> = Vec::new();
        for (di, d) in c.deviants.iter().enumerate() {
            let id = net.connect(ConnOpts::default());
            let mut raw = Raw { net: net.clone(), ctl: ctl.clone(), id, consumed: 0, interleave: c.interleave };
            let mut ob = DevObs::default();
            let upto = if matches!(d.m, Mut::AfterEnd { .. }) { 13 } else { d.step };
            match walk(&mut raw, upto, &mut canon_params) {
                Err(e) => ob.prefix_failed = Some(e),
                Ok((client_id, prev, strings)) => {
                    let mut req = match &d.m {
                        Mut::WrongStep { send } | Mut::WrongStepThen { send } | Mut::PipelinedWrongStep { send } | Mut::WrongStepAfterFailedReply { send } => {
                            canonical_request(*send, &client_id, &prev, &strings)
                        }
                        // (Test02's canonical argument is the fixed reply of Test01)
                        Mut::AfterEnd { send } => {
                            let p = if *send == 2 { json!({"bool": true}) } else { Value::Null };
                            canonical_request(*send, &client_id, &p, &strings)
                        }
                        _ => canonical_request(d.step, &client_id, &prev, &strings),
                    };
                    apply(&mut req, &d.m);
                    let silent_ok = req.get("oneway") == Some(&json!(true));
                    if let Mut::WrongStepAfterFailedReply { .. } = &d.m {
                        // the same request on a connection whose peer has a window of a few bytes and
                        // never reads: the worker blocks in the reply write; then the peer is gone
                        let other = net.connect(ConnOpts { s2c_cap: 6, ..Default::default() });
                        let mut b = serde_json::to_vec(&req).unwrap();
                        b.push(0);
                        net.client_send(other, &b);
                        wait_quiescent(&ctl);
                        if di % 2 == 0 {
                            net.client_reset(other);
                        } else {
                            net.client_close(other);
                        }
                        wait_quiescent(&ctl);
                    }
                    match &d.m {
                        Mut::PipelinedWrongStep { .. } => {
                            let due = canonical_request(d.step, &client_id, &prev, &strings);
                            let mut b = serde_json::to_vec(&req).unwrap();
                            b.push(0);
                            b.extend(serde_json::to_vec(&due).unwrap());
                            b.push(0);
                            net.client_send(id, &b);
                            wait_quiescent(&ctl);
                            let (frames, ended) = raw.new_frames();
                            // reply groups: a group ends with the first frame that does not carry continues
                            let mut groups: Vec<Vec<Value>> = vec![vec![]];
                            for f in frames {
                                let fin = f.get("continues") != Some(&json!(true));
                                groups.last_mut().unwrap().push(f);
                                if fin {
                                    groups.push(vec![]);
                                }
                            }
                            ob.reached = true;
                            ob.request = req;
                            ob.ended = ended;
                            ob.replies = groups.first().cloned().unwrap_or_default();
                            ob.copies.push(groups.first().and_then(|g| g.last().cloned()));
                            ob.copies.push(groups.get(1).and_then(|g| g.last().cloned()));
                        }
                        Mut::Duplicate | Mut::Race { .. } => {
                            let mut b = serde_json::to_vec(&req).unwrap();
                            b.push(0);
                            let mut conns = vec![id];
                            if let Mut::Race { n } = &d.m {
                                for _ in 1..*n {
                                    conns.push(net.connect(ConnOpts::default()));
                                }
                                for cid in &conns {
                                    net.client_send(*cid, &b);
                                }
                            } else {
                                let mut two = b.clone();
                                two.extend_from_slice(&b);
                                net.client_send(id, &two);
                            }
                            wait_quiescent(&ctl);
                            let copies_per_conn = if matches!(d.m, Mut::Duplicate) { 2 } else { 1 };
                            for (ci, cid) in conns.iter().enumerate() {
                                net.client_drain(*cid);
                                let w = net.lock();
                                let from = if ci == 0 { raw.consumed } else { 0 };
                                let (frames, _) = split_nul(&w.conns[*cid].client_rx[from..]);
                                let finals: Vec<Value> = frames
                                    .iter()
                                    .filter_map(|f| serde_json::from_slice::<Value>(f).ok())
                                    .filter(|f| f.get("continues") != Some(&json!(true)))
                                    .collect();
                                for k in 0..copies_per_conn {
                                    ob.copies.push(finals.get(k).cloned());
                                }
                            }
                            for cid in conns.iter().skip(1) {
                                net.client_half_close(*cid);
                            }
                            ob.reached = true;
                            ob.request = req;
                        }
                        _ => {
                            let (replies, ended) = raw.call(&req, silent_ok);
                            ob.reached = true;
                            ob.request = req;
                            ob.replies = replies;
                            ob.ended = ended;
                            if let Mut::UnknownClientIdTwice = &d.m {
                                if !ended {
                                    let again = canonical_request(1, "0123456789abcdef", &Value::Null, &strings);
                                    let (r2, _) = raw.call(&again, false);
                                    ob.copies.push(r2.last().cloned());
                                }
                            }
                            if let Mut::WrongStepThen { send } = &d.m {
                                if !ended {
                                    // the step after the refused one, with canonical parameters as far as known
                                    // (Test02's canonical argument is the fixed reply of Test01)
                                    let after_prev = if *send == 1 { json!({"bool": true}) } else { Value::Null };
                                    let after = canonical_request(*send + 1, &client_id, &after_prev, &strings);
                                    let (r2, e2) = raw.call(&after, *send + 1 == 11);
                                    ob.copies.push(r2.last().cloned());
                                    if !e2 {
                                        // and the step that was due all along
                                        let due = canonical_request(d.step, &client_id, &prev, &strings);
                                        let (r3, _) = raw.call(&due, d.step == 11);
                                        ob.copies.push(r3.last().cloned());
                                    }
                                }
                            }
                        }
                    }
                }
            }
            net.client_half_close(id);
            out2.lock().unwrap().dev[di] = ob;
        }
        // a full raw walk when nothing else records the canonical parameters (plan construction)
        if c.deviants.is_empty() && c.canonical == 0 {
            let id = net.connect(ConnOpts::default());
            let mut raw = Raw { net: net.clone(), ctl: ctl.clone(), id, consumed: 0, interleave: false };
            let r = walk(&mut raw, 13, &mut canon_params);
            if let Err(e) = r {
                net.note(format!("raw canonical walk failed: {}", e));
            }
            net.client_half_close(id);
        }
        // let everybody finish (the hostile peers are still stalled while the others run), then the
        // hostile peers go away, then the idle timeout ends the server
        wait_quiescent(&ctl);
        {
            let stalled_now = out2.lock().unwrap().canon_results.iter().filter(|r| r.is_none()).count();
            out2.lock().unwrap().unfinished_while_stalled = stalled_now;
        }
        for id in &stalled_ids {
            net.client_close(*id);
        }
        wait_quiescent(&ctl);
        for _ in 0..40 {
            wait_quiescent(&ctl);
            for i in 0..net.lock().conns.len() {
                let _ = i;
            }
            let (done, now, d) = {
                let w = net.lock();
                (out2.lock().unwrap().server_result.is_some(), w.now, w.select_deadline)
            };
            if done {
                break;
            }
            match d {
                Some(d) => net.set_clock(d.max(now + 1), false),
                None => break,
            }
        }
        if out2.lock().unwrap().server_result.is_none() {
            net.emergency_shutdown();
            wait_quiescent(&ctl);
        }
        let finished = out2.lock().unwrap().server_result.is_some();
        if finished {
            let _ = server.join();
            for h in handles {
                let _ = h.join();
            }
        }
        varlink::verif::unregister("q");
        CLOCK.with(|k| *k.borrow_mut() = None);
        let w = net.lock();
        let mut o = out2.lock().unwrap();
        // client ids issued on any connection (Start replies)
        for cn in &w.conns {
            let (frames, _) = split_nul(&cn.client_rx);
            for f in frames {
                if let Ok(v) = serde_json::from_slice::<Value>(f) {
                    if let Some(id) = v.get("parameters").and_then(|p| p.get("client_id")).and_then(|s| s.as_str()) {
                        o.client_ids.push(id.to_string());
                    }
                }
            }
        }
        o.canon_params = canon_params;
        // the log hash must not depend on the client ids (hashes of the real clock): event kinds and sizes only
        o.log_hash = w.log_hash();
        o.end_time = w.now;
        o.finished = finished;
    });
    let o = std::mem::take(&mut *out.lock().unwrap_or_else(|e| e.into_inner()));
    (end, stats, o)
}

const OK_ERRORS: [&str; 3] = [
    "org.varlink.certification.CertificationError",
    "org.varlink.certification.ClientIdError",
    "org.varlink.service.InvalidParameter",
];

pub fn judge_q(case: &QCase, end: &SimEnd, o: &QObs) -> (Vec<Violation>, bool) {
    let mut v = Vec::new();
    match end {
        SimEnd::Completed => {}
        SimEnd::Panic(t) => {
            v.push(viol("C19", "panic", format!("certification code panicked: {}", t.chars().take(300).collect::<String>())));
            return (v, false);
        }
        SimEnd::Deadlock(t) => {
            v.push(viol("C19", "deadlock", format!("certification run deadlocked: {}", t.chars().take(300).collect::<String>())));
            return (v, false);
        }
        SimEnd::StepBound => {
            v.push(viol("C19", "livelock", format!("the run never came to rest: {} scheduler steps without quiescence", crate::sched::MAX_STEPS)));
            return (v, false);
        }
    }
    let mut inconclusive = false;
    for (k, r) in o.canon_results.iter().enumerate() {
        match r.as_deref() {
            Some("Ok") => {}
            other => v.push(viol(
                "C19",
                "canonical-client-failed",
                format!("canonical client {} of {} (with {} deviating raw clients beside it) ended with {:?}", k, case.canonical, case.deviants.len(), other),
            )),
        }
    }
    if case.stalled > 0 && o.unfinished_while_stalled > 0 {
        v.push(viol(
            "C19",
            "canonical-client-blocked-by-stalled-peer",
            format!(
                "{} of {} canonical clients could not finish while {} peer(s) that never read their replies were connected",
                o.unfinished_while_stalled, case.canonical, case.stalled
            ),
        ));
    }
    for f in &o.jump_failures {
        v.push(viol("C19", "canonical-client-failed", f.clone()));
    }
    let mut ids = o.client_ids.clone();
    ids.sort();
    let n = ids.len();
    ids.dedup();
    if ids.len() != n {
        v.push(viol("C19", "client-id-reused", format!("{} client ids were issued, only {} are distinct", n, ids.len())));
    }
    for (d, ob) in case.deviants.iter().zip(o.dev.iter()) {
        if let Some(e) = &ob.prefix_failed {
            v.push(viol("C19", "canonical-prefix-failed", format!("raw client could not reach step {}: {}", STEPS[d.step], e)));
            continue;
        }
        if !ob.reached {
            inconclusive = true;
            continue;
        }
        if matches!(d.m, Mut::Duplicate | Mut::Race { .. }) {
            // Test11 is oneway: no copy is answered at all
            let passed = ob.copies.iter().filter(|c| matches!(c, Some(r) if r.get("error").is_none())).count();
            if passed > 1 {
                v.push(viol(
                    "C19",
                    "step-passed-twice",
                    format!(
                        "step {} {:?}: {} copies of the same request for one client id were answered without an error: {:?}",
                        STEPS[d.step],
                        d.m,
                        passed,
                        ob.copies.iter().map(|c| c.as_ref().map(|r| r.to_string().chars().take(80).collect::<String>())).collect::<Vec<_>>()
                    ),
                ));
            }
            for r in ob.copies.iter().flatten() {
                if let Some(e) = r.get("error").and_then(|e| e.as_str()) {
                    if !OK_ERRORS.contains(&e) {
                        v.push(viol("C19", "unexpected-error-kind", format!("step {} {:?} answered with error {}", STEPS[d.step], d.m, e)));
                    }
                }
            }
            continue;
        }
        if let Mut::UnknownClientIdTwice = &d.m {
            if let Some(Some(r2)) = ob.copies.first() {
                if r2.get("error").is_none() {
                    v.push(viol(
                        "C19",
                        "refused-id-became-known",
                        format!(
                            "step {} under a made-up client id was refused, yet Test01 under the same made-up id was then answered without an error: {}",
                            STEPS[d.step], r2
                        ),
                    ));
                }
            }
        }
        if let Mut::PipelinedWrongStep { send } = &d.m {
            match ob.copies.get(1) {
                Some(Some(r2)) if r2.get("error").is_none() => {}
                other => {
                    if !ob.ended {
                        v.push(viol(
                            "C19",
                            "canonical-step-refused-after-deviation",
                            format!(
                                "client at step {}: {} and, behind it in the same write, the canonical {} were sent; the canonical step was answered with {:?}",
                                STEPS[d.step], STEPS[*send], STEPS[d.step], other
                            ),
                        ));
                    }
                }
            }
        }
        if let Mut::WrongStepThen { send } = &d.m {
            if let Some(Some(r2)) = ob.copies.first() {
                if r2.get("error").is_none() {
                    v.push(viol(
                        "C19",
                        "refused-step-moved-the-client",
                        format!(
                            "client at step {}: {} was refused, but then {} (the step after the refused one) was answered without an error: {}",
                            STEPS[d.step], STEPS[*send], STEPS[*send + 1], r2
                        ),
                    ));
                }
            }
            if d.step != 11 {
                if let Some(Some(r3)) = ob.copies.get(1) {
                    if r3.get("error").is_some() {
                        v.push(viol(
                            "C19",
                            "canonical-step-refused-after-deviation",
                            format!(
                                "client at step {}: after the refused out-of-order steps {} and {} the canonical {} itself was refused: {}",
                                STEPS[d.step], STEPS[*send], STEPS[*send + 1], STEPS[d.step], r3
                            ),
                        ));
                    }
                }
            }
        }
        for r in &ob.replies {
            let err = r.get("error").and_then(|e| e.as_str());
            match err {
                Some(e) if OK_ERRORS.contains(&e) => {}
                Some(e) => v.push(viol(
                    "C19",
                    "unexpected-error-kind",
                    format!("deviating request {} at step {} was answered with error {}", ob.request, STEPS[d.step], e),
                )),
                None => {
                    v.push(viol(
                        "C19",
                        "deviation-passed",
                        format!("step {} deviation {:?}: request {} was answered without an error: {}", STEPS[d.step], d.m, ob.request, r),
                    ));
                    break;
                }
            }
        }
    }
    (v, inconclusive)
}

pub fn eval_q(case: &QCase) -> RunResult {
    let (end, stats, o) = run_q(case);
    let (violations, inconclusive) = judge_q(case, &end, &o);
    let mut sig = Fnv::new();
    let mut nosched = case.clone();
    nosched.sched = SchedCfg::uniform(0);
    sig.str(&serde_json::to_string(&nosched).unwrap());
    sig.u64(stats.switch_hash);
    let mut lh = Fnv::new();
    lh.u64(o.log_hash);
    lh.str(&format!("{:?}", o.canon_results));
    for d in &o.dev {
        lh.str(&format!("{} {:?}", d.replies.len(), d.replies.last().and_then(|r| r.get("error"))));
    }
    let silent = o.dev.iter().filter(|d| d.reached && d.replies.is_empty()).count() as u64;
    let errors = o.dev.iter().filter(|d| d.replies.iter().any(|r| r.get("error").is_some())).count() as u64;
    RunResult {
        violations,
        sig: sig.0,
        nontrivial: case.canonical + case.deviants.len() + case.stalled + case.jump.is_some() as usize + case.pause.is_some() as usize + case.many >= 1,
        faults: vec![
            ("deviating_request_sent", o.dev.iter().filter(|d| d.reached).count() as u64),
            ("coarse_monotonic_clock", case.coarse_clock as u64),
            ("clock_jump_13h", case.jump.is_some() as u64),
            ("client_paused_in_mid_sequence", case.pause.is_some() as u64),
            ("peer_never_reads", case.stalled as u64),
        ],
        probes: vec![
            ("deviation_answered_with_error", errors),
            ("deviation_unanswered", silent),
            ("canonical_clients_ok", o.canon_results.iter().filter(|r| r.as_deref() == Some("Ok")).count() as u64),
            ("client_ids_issued", o.client_ids.len() as u64),
            ("canonical_clients_ge_2", (case.canonical >= 2) as u64),
        ],
        sim_ms: o.end_time,
        steps: stats.steps,
        log_hash: lh.0,
        inconclusive: inconclusive || !o.finished,
        sample: Some(json!({
            "scenario": "Q",
            "canonical_clients": case.canonical,
            "deviations": case.deviants.iter().zip(o.dev.iter()).map(|(d, ob)| json!({
                "step": STEPS[d.step],
                "mutation": format!("{:?}", d.m),
                "request": ob.request.to_string().chars().take(300).collect::<String>(),
                "replies": ob.replies.iter().map(|r| r.to_string().chars().take(200).collect::<String>()).collect::<Vec<_>>(),
                "connection_ended": ob.ended,
            })).collect::<Vec<_>>(),
            "canonical_results": o.canon_results,
            "sched_mode": format!("{:?}", case.sched.mode),
            "scheduler_steps": stats.steps,
            "context_switches": stats.switches,
            "tasks": stats.tasks,
        })),
    }
}

pub fn shrinks(c: &QCase) -> Vec<QCase> {
    let mut v = Vec::new();
    if c.canonical > 0 {
        let mut n = c.clone();
        n.canonical -= 1;
        v.push(n);
        if c.canonical > 2 {
            let mut n = c.clone();
            n.canonical = 2;
            v.push(n);
        }
    }
    for i in 0..c.deviants.len() {
        let mut n = c.clone();
        n.deviants.remove(i);
        v.push(n);
    }
    if c.interleave {
        let mut n = c.clone();
        n.interleave = false;
        v.push(n);
    }
    v
}

pub fn pin_schedule(c: &QCase, prop: &str, clause: &str) -> QCase {
    let (_, stats, _) = run_q(c);
    let mut pinned = c.clone();
    pinned.sched.replay = Some(stats.choices.clone());
    let fails = |cand: &QCase| eval_q(cand).violations.iter().any(|v| v.prop == prop && v.clause == clause);
    if !fails(&pinned) {
        return c.clone();
    }
    pinned
}

// ---------------------------------------------------------------------------------------------
// deviation space

fn leaf_muts(v: &Value, cur: &mut Vec<String>, in_struct_object: bool, out: &mut Vec<Mut>) {
    match v {
        Value::Object(o) => {
            for (k, x) in o {
                cur.push(k.clone());
                leaf_muts(x, cur, true, out);
                if x.is_object() || x.is_array() {
                    // the member as a whole (a key of a map / set, a field of a struct)
                    out.push(Mut::Remove { path: cur.clone() });
                }
                // a string set written as a plain list of its members, and a list of strings written
                // as a set: the right members in the wrong JSON shape
                if let Value::Object(m) = x {
                    if !m.is_empty() && m.values().all(|e| e.as_object().map_or(false, |o| o.is_empty())) {
                        out.push(Mut::Set { path: cur.clone(), value: Value::Array(m.keys().map(|k| json!(k)).collect()) });
                    }
                }
                if let Value::Array(a) = x {
                    if !a.is_empty() && a.iter().all(|e| e.is_string()) {
                        let mut m = Map::new();
                        for e in a {
                            m.insert(e.as_str().unwrap().to_string(), json!({}));
                        }
                        out.push(Mut::Set { path: cur.clone(), value: Value::Object(m) });
                    }
                }
                cur.pop();
            }
        }
        Value::Array(a) => {
            for (i, x) in a.iter().enumerate() {
                cur.push(format!("#{}", i));
                leaf_muts(x, cur, false, out);
                cur.pop();
            }
            if !a.is_empty() {
                // one element fewer
                let mut p = cur.clone();
                p.push("#0".into());
                out.push(Mut::Remove { path: p });
            }
        }
        leaf => {
            let path = cur.clone();
            let (changed, retyped): (Value, Value) = match leaf {
                Value::Bool(b) => (json!(!b), json!("s")),
                Value::Number(n) if n.is_i64() || n.is_u64() => (json!(n.as_i64().unwrap_or(0) + 1), json!("s")),
                Value::Number(n) => (json!(n.as_f64().unwrap_or(0.0) + 0.5), json!("s")),
                Value::String(s) => (json!(format!("{}x", s)), json!(5)),
                _ => (json!({"x": "foo"}), json!(5)),
            };
            out.push(Mut::Set { path: path.clone(), value: changed });
            out.push(Mut::Set { path: path.clone(), value: retyped });
            // removing a null member leaves the same typed value (None): not a deviation
            if !(leaf.is_null() && in_struct_object) {
                out.push(Mut::Remove { path });
            }
        }
    }
}

fn canonical_flags(step: usize) -> (bool, bool, bool) {
    (step == 10, step == 11, false)
}

pub fn deviation_space(canon_params: &[Value]) -> Vec<Deviation> {
    let mut v = Vec::new();
    for step in 0..13 {
        // parameters
        if let Some(p) = canon_params.get(step) {
            if let Some(o) = p.as_object() {
                let mut muts = Vec::new();
                for (k, x) in o {
                    if k == "client_id" {
                        continue;
                    }
                    let mut cur = vec![k.clone()];
                    leaf_muts(x, &mut cur, true, &mut muts);
                    // the member as a whole
                    muts.push(Mut::Remove { path: vec![k.clone()] });
                }
                muts.push(Mut::UnknownClientId);
                if step != 11 {
                    muts.push(Mut::UnknownClientIdTwice);
                }
                muts.push(Mut::Remove { path: vec!["client_id".into()] });
                muts.push(Mut::Set { path: vec!["client_id".into()], value: json!(7) });
                muts.push(Mut::NoParameters);
                for m in muts {
                    v.push(Deviation { step, m });
                }
            }
        }
        // `parameters` as a whole is not an object
        for val in [json!([]), json!([{}]), json!("s"), json!(5), json!(true)] {
            v.push(Deviation { step, m: Mut::SetParams(val) });
        }
        // the same step more than once under one client id
        // (End leaves the client at End: repeating it is the service's design, not a deviation)
        if step > 0 && step != 11 && step != 12 {
            v.push(Deviation { step, m: Mut::Duplicate });
            for n in [2usize, 3, 5] {
                v.push(Deviation { step, m: Mut::Race { n } });
            }
        }
        // call modes
        let canon = canonical_flags(step);
        for bits in 0..8u8 {
            let f = (bits & 1 != 0, bits & 2 != 0, bits & 4 != 0);
            if f == canon {
                continue;
            }
            let opt = |b: bool| if b { Some(true) } else { None };
            v.push(Deviation { step, m: Mut::Flags { more: opt(f.0), oneway: opt(f.1), upgrade: opt(f.2) } });
        }
        // wrong position (Start anywhere is simply a new run, not a deviation)
        for send in 1..13 {
            if send != step {
                v.push(Deviation { step, m: Mut::WrongStep { send } });
            }
        }
        // an out-of-order step whose refusal could not be delivered, then the same step again
        if step >= 2 && step != 11 {
            for send in [1usize, 12] {
                if send != step && send + 1 != step {
                    v.push(Deviation { step, m: Mut::WrongStepAfterFailedReply { send } });
                }
            }
        }
        // an out-of-order step with the step that is due right behind it in the same write
        if step >= 1 && step != 11 {
            for send in [1usize, 9, 10, 12] {
                if send != step {
                    v.push(Deviation { step, m: Mut::PipelinedWrongStep { send } });
                }
            }
        }
        // a finished client id is not a fresh one: after End every earlier step is out of order
        if step == 12 {
            for send in 1..12 {
                v.push(Deviation { step, m: Mut::AfterEnd { send } });
            }
        }
        // ... and what a refused step leaves behind (only where the parameters of the follow-up steps
        // do not depend on replies the client has not seen: steps with a client id only, i.e. Test01 and End)
        if step >= 1 && step != 11 {
            for send in [1usize, 11] {
                if send != step && send + 1 != step && step != 0 {
                    v.push(Deviation { step, m: Mut::WrongStepThen { send } });
                }
            }
        }
    }
    v
}

pub fn c19_plan(tier: Tier) -> Plan {
    // one raw canonical walk against the real service yields the canonical parameters of every step
    let probe = QCase { canonical: 0, deviants: vec![], interleave: false, coarse_clock: false, stalled: 0, jump: None, many: 0, pause: None, sched: SchedCfg::uniform(1) };
    let (_, _, o) = run_q(&probe);
    let canon = o.canon_params.clone();
    let devs = deviation_space(&canon);
    let mut spaces = Vec::new();
    {
        let devs = devs.clone();
        let seeds: u64 = if tier == Tier::Quick { 2 } else { 20 };
        spaces.push(Space {
            name: "Q.strict.single-deviation",
            size: devs.len() as u64 * seeds,
            exhaustive: true,
            gen: Box::new(move |idx, seed| {
                let mut rng = Rng::new(seed);
                let d = devs[(idx / seeds) as usize].clone();
                Case::Q(QCase {
                    canonical: if (idx / seeds) % 5 == 0 { 1 } else { 0 },
                    deviants: vec![d],
                    interleave: idx % 2 == 1,
                    coarse_clock: false,
                    stalled: 0,
                    jump: None,
                    many: 0,
                    pause: None,
                    sched: SchedCfg::random(&mut rng, 1),
                })
            }),
        });
    }
    {
        let n = if tier == Tier::Quick { 1_000 } else { 40_000 };
        spaces.push(Space {
            name: "Q.canonical.concurrent",
            size: n,
            exhaustive: false,
            gen: Box::new(move |idx, seed| {
                let mut rng = Rng::new(seed);
                let k = if idx < 16 { idx as usize + 1 } else if rng.chance(1, 6) { rng.range(9, 16) as usize } else { rng.range(2, 8) as usize };
                Case::Q(QCase { canonical: k, deviants: vec![], interleave: false, coarse_clock: false, stalled: 0, jump: None, many: 0, pause: None, sched: SchedCfg::random(&mut rng, 1) })
            }),
        });
    }
    {
        let devs = devs.clone();
        let n = if tier == Tier::Quick { 1_500 } else { 60_000 };
        spaces.push(Space {
            name: "Q.mixed",
            size: n,
            exhaustive: false,
            gen: Box::new(move |_idx, seed| {
                let mut rng = Rng::new(seed);
                let k = rng.range(1, 6) as usize;
                let nd = rng.range(1, 3) as usize;
                let deviants = (0..nd).map(|_| rng.pick(&devs).clone()).collect();
                Case::Q(QCase { canonical: k, deviants, interleave: rng.chance(2, 3), coarse_clock: false, stalled: 0, jump: None, many: 0, pause: None, sched: SchedCfg::random(&mut rng, 1) })
            }),
        });
    }
    {
        // schedule-dependent deviations get many schedules each
        let races: Vec<Deviation> = devs.iter().filter(|d| matches!(d.m, Mut::Race { .. } | Mut::Duplicate)).cloned().collect();
        let seeds: u64 = if tier == Tier::Quick { 20 } else { 600 };
        spaces.push(Space {
            name: "Q.strict.same-step-races",
            size: races.len() as u64 * seeds,
            exhaustive: false,
            gen: Box::new(move |idx, seed| {
                let mut rng = Rng::new(seed);
                let d = races[(idx / seeds) as usize].clone();
                Case::Q(QCase {
                    canonical: if rng.chance(1, 4) { 1 } else { 0 },
                    deviants: vec![d],
                    interleave: rng.chance(1, 2),
                    coarse_clock: false,
                    stalled: 0,
                    jump: None,
                    many: 0,
                    pause: None,
                    sched: SchedCfg::random(&mut rng, 1),
                })
            }),
        });
    }
    {
        // fault-injecting configuration: a monotonic clock with millisecond granularity
        let n = if tier == Tier::Quick { 400 } else { 10_000 };
        spaces.push(Space {
            name: "Q.canonical.coarse-clock",
            size: n,
            exhaustive: false,
            gen: Box::new(move |_idx, seed| {
                let mut rng = Rng::new(seed);
                let k = rng.range(2, 6) as usize;
                Case::Q(QCase { canonical: k, deviants: vec![], interleave: false, coarse_clock: true, stalled: 0, jump: None, many: 0, pause: None, sched: SchedCfg::random(&mut rng, 1) })
            }),
        });
    }
    {
        // hostile peers that never read, beside canonical clients
        let n = if tier == Tier::Quick { 300 } else { 10_000 };
        spaces.push(Space {
            name: "Q.canonical.stalled-peer",
            size: n,
            exhaustive: false,
            gen: Box::new(move |_idx, seed| {
                let mut rng = Rng::new(seed);
                Case::Q(QCase {
                    canonical: rng.range(1, 4) as usize,
                    deviants: vec![],
                    interleave: false,
                    coarse_clock: false,
                    stalled: rng.range(1, 2) as usize,
                    jump: None,
                    many: 0,
                    pause: None,
                    sched: SchedCfg::random(&mut rng, 1),
                })
            }),
        });
    }
    {
        // coarse clock that also jumps past the lifetime of a client id
        let n = if tier == Tier::Quick { 300 } else { 10_000 };
        spaces.push(Space {
            name: "Q.clock.jump",
            size: n,
            exhaustive: false,
            gen: Box::new(move |_idx, seed| {
                let mut rng = Rng::new(seed);
                let old = rng.range(1, 3) as usize;
                let new = rng.range(2, 4) as usize;
                // mostly Starts and first steps right after the jump, then the rest
                let mut order: Vec<u8> = (0..rng.range(4, 10)).map(|_| rng.below(new as u64) as u8).collect();
                for r in 0..13u8 {
                    for k in 0..new as u8 {
                        let _ = r;
                        order.push(k);
                    }
                }
                Case::Q(QCase {
                    canonical: 0,
                    deviants: vec![],
                    interleave: false,
                    coarse_clock: true,
                    stalled: 0,
                    jump: Some((old, new, order)),
                    many: 0,
                    pause: None,
                    sched: SchedCfg::random(&mut rng, 1),
                })
            }),
        });
    }
    {
        // long history: 30..300 client ids issued by one server while a client is about to finish
        let n = if tier == Tier::Quick { 40 } else { 1_000 };
        spaces.push(Space {
            name: "Q.history.many-clients",
            size: n,
            exhaustive: false,
            gen: Box::new(move |idx, seed| {
                let mut rng = Rng::new(seed);
                let many = if idx % 4 == 0 { rng.range(30, 63) } else { rng.range(64, 300) } as usize;
                Case::Q(QCase {
                    canonical: rng.range(0, 2) as usize,
                    deviants: vec![],
                    interleave: false,
                    coarse_clock: false,
                    stalled: 0,
                    jump: None,
                    many,
                    pause: None,
                    sched: SchedCfg::random(&mut rng, 1),
                })
            }),
        });
    }
    {
        // a canonical client that pauses in mid-sequence (2 s .. 11 h, the id lives 12 h) with its
        // connection open, alone or beside other canonical clients
        let pauses: [u64; 8] = [2, 3, 5, 30, 61, 600, 3600, 11 * 3600];
        let seeds: u64 = if tier == Tier::Quick { 1 } else { 10 };
        spaces.push(Space {
            name: "Q.canonical.paused-client",
            size: 12 * pauses.len() as u64 * seeds,
            exhaustive: true,
            gen: Box::new(move |idx, seed| {
                let mut rng = Rng::new(seed);
                let k = idx / seeds;
                let at = 1 + (k % 12) as usize;
                let secs = pauses[(k / 12) as usize];
                Case::Q(QCase {
                    canonical: (idx % 2) as usize,
                    deviants: vec![],
                    interleave: false,
                    coarse_clock: idx % 3 == 0,
                    stalled: 0,
                    jump: None,
                    many: 0,
                    pause: Some((at, secs)),
                    sched: SchedCfg::random(&mut rng, 1),
                })
            }),
        });
    }
    let ndev = devs.len();
    if std::env::var("VSIM_VERBOSE").is_ok() {
        for st in 0..13 {
            let k: Vec<&Deviation> = devs.iter().filter(|d| d.step == st).collect();
            let sets = k.iter().filter(|d| matches!(d.m, Mut::Set { .. })).count();
            let rem = k.iter().filter(|d| matches!(d.m, Mut::Remove { .. })).count();
            println!("  step {:<7} deviations {:>3} (set {} remove {}) canonical parameters: {}", STEPS[st], k.len(), sets, rem, canon.get(st).map(|v| v.to_string()).unwrap_or_default().chars().take(150).collect::<String>());
        }
    }
    Plan {
        spaces,
        rule: format!("Q: the real certification service behind the real listen loop on the simulated network. Strictness: {} single deviations = for every step Start..End: every scalar leaf of its canonical parameters changed / retyped / removed, every member removed, array shortened, unknown / missing / ill-typed client id, no parameters; the parameters member replaced by a non-object; every wrong combination of more / oneway / upgrade; every other step's canonical request sent at this position; the step's own request sent twice in one write, and at the same time on 2 / 3 / 5 connections under one client id (20 (quick) / 600 (thorough) seeded schedules each) - each after the canonical prefix on a raw connection (complete enumeration; canonical parameters are taken from a raw canonical walk against the service itself, mutations that deserialize to the same typed value are excluded by construction). Concurrency: 1..16 real canonical clients (run_client + generated stubs) with scheduler-interleaved steps; mixed runs with deviating raw clients beside canonical ones. Oracle: a deviating request is answered with CertificationError / ClientIdError / InvalidParameter, or not at all, never without an error; every canonical client returns Ok; issued client ids are pairwise distinct.", ndev),
        level: "exploration",
        real: vec![
            "varlink-certification/src/main.rs: run_server, CertInterface, ClientIds, check_call_* macros, run_client (included verbatim)",
            "generated server proxy and client stubs for org.varlink.certification (emitted by /repo's varlink_generator at harness build time)",
            "varlink::listen, ThreadPool, handle, Connection, MethodCall",
        ],
        stub: vec![
            "sockets, select, threads (as in scenario L)",
            "deviating clients (raw JSON written by the environment task)",
            "std::time::Instant of the certification service (simulated monotonic clock: simulated ms + 1 ns per read)",
        ],
        assumptions: vec![
            "an extra unknown member, or a JSON number written differently but equal as the typed value, is not a deviation".into(),
            "Start sent again later is a new run, not a deviation".into(),
            "End leaves a client id at step End by design: End repeated is not counted as a deviation".into(),
        ],
    }
}
