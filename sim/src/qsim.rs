//! stub (to be replaced)
use serde_derive::{Deserialize, Serialize};
use crate::report::RunResult;
#[derive(Clone, Debug, Serialize, Deserialize)]
pub struct QCase {}
pub fn eval_q(_c: &QCase) -> RunResult { RunResult::default() }
pub fn shrinks(_c: &QCase) -> Vec<QCase> { vec![] }
use crate::props::Plan;
use crate::report::Tier;
pub fn c19_plan(_t: Tier) -> Plan { unimplemented!() }
