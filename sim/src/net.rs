//! Simulated transport, listener and clock for the multi-threaded scenarios.
//!
//! One `World` behind one shuttle `Mutex` + `Condvar`: every transport operation of every task is
//! a scheduling point, a blocked operation makes its task non-runnable (so quiescence is exact), and
//! every blocking primitive re-examines the pending faults each time it is woken (a fault armed
//! while the target is already blocked interrupts it). Time is a counter of simulated milliseconds
//! that only the environment task moves. Nothing in here sleeps or reads a real clock.
//!
//! A connection is two byte pipes. The server end implements `varlink::Stream` and is what
//! `Listener::accept` returns through the `sim:` hook; the client end is either driven by the
//! environment task through non-blocking calls (raw scripted peers) or wrapped in a blocking
//! `ClientEnd` for a real `varlink::Connection`.
//!
//! Legal behaviours only: a stream is reliable and ordered, so no loss / duplication / reordering
//! inside a connection is ever injected.

use std::collections::VecDeque;
use std::io::{self, Read, Write};
use std::os::unix::io::{AsRawFd, RawFd};
use std::sync::Arc;

use shuttle::sync::{Condvar, Mutex, MutexGuard};
use varlink::verif::{SimListener, SimSelect};

use crate::rng::Fnv;

#[derive(Default, Debug)]
pub struct Pipe {
    pub buf: VecDeque<u8>,
    /// window: a writer blocks while `buf.len() >= cap`
    pub cap: usize,
    /// writer closed or half-closed: reader sees EOF once `buf` is drained
    pub wclosed: bool,
    /// reader is gone: writer gets EPIPE
    pub rclosed: bool,
    /// connection reset: both directions fail with ECONNRESET
    pub reset: bool,
    pub total: u64,
}

#[derive(Default, Debug, Clone)]
pub struct IoPlan {
    /// per call: 0 = EINTR, n = at most n bytes; exhausted = no limit
    pub plan: Vec<u16>,
    pub pos: usize,
}
impl IoPlan {
    pub fn new(plan: Vec<u16>) -> IoPlan {
        IoPlan { plan, pos: 0 }
    }
    fn next(&mut self) -> Option<u16> {
        let v = self.plan.get(self.pos).copied();
        if v.is_some() {
            self.pos += 1;
        }
        v
    }
}

#[derive(Debug, Default)]
pub struct Conn {
    pub c2s: Pipe,
    pub s2c: Pipe,
    pub srv_read: IoPlan,
    pub srv_write: IoPlan,
    pub cli_read: IoPlan,
    pub cli_write: IoPlan,
    /// everything the client ever wrote
    pub client_tx: Vec<u8>,
    /// live server-side stream objects; 0 after accept means the server dropped the connection
    pub srv_handles: usize,
    pub connected_at: u64,
    pub accepted: Option<(u64, u64)>,
    pub srv_closed: Option<(u64, u64)>,
    pub srv_first_io: Option<(u64, u64)>,
    pub srv_shutdown: Option<(u64, u64)>,
    /// raw client: everything read so far
    pub client_rx: Vec<u8>,
    /// event seq at which the raw client first observed EOF / reset from the server
    pub client_saw_end: Option<(u64, u64, &'static str)>,
    /// event seq at which the client half-closed or closed its side
    pub client_closed: Option<(u64, u64)>,
    pub client_sent: u64,
    pub srv_read_calls: u64,
    pub srv_reads_multi_msg: u64,
}

#[derive(Default, Debug, Clone)]
pub struct NetCounters {
    pub srv_short_reads: u64,
    pub srv_read_eintr: u64,
    pub srv_short_writes: u64,
    pub srv_write_eintr: u64,
    pub srv_write_blocked: u64,
    pub srv_write_epipe: u64,
    pub srv_read_reset: u64,
    pub select_eintr: u64,
    pub select_timeouts: u64,
    pub select_ready: u64,
    pub accept_blocked: u64,
    pub clock_jumps: u64,
    pub clock_jumps_while_busy: u64,
    pub cli_short_reads: u64,
    pub cli_read_eintr: u64,
    pub cli_read_blocked: u64,
    pub cli_read_timeout: u64,
}

#[derive(Debug, Clone, PartialEq)]
pub enum Ev {
    Connect { c: usize },
    SelectEnter { timeout: u64 },
    SelectReturn { what: &'static str, remaining: u64 },
    AcceptEnter,
    AcceptReturn { c: Option<usize> },
    SrvRead { c: usize, n: usize, what: &'static str },
    SrvWrite { c: usize, n: usize, what: &'static str },
    SrvShutdown { c: usize },
    SrvClosed { c: usize },
    CliSend { c: usize, n: usize },
    CliRecv { c: usize, n: usize, what: &'static str },
    CliClose { c: usize, how: &'static str },
    Clock { to: u64 },
    Signal,
    StopFlag,
    ListenReturn { result: String },
    ListenerClosed,
    Note(String),
}

pub const MAX_LOG_EVENTS: usize = 120_000;

#[derive(Default)]
pub struct World {
    pub now: u64,
    pub seq: u64,
    pub conns: Vec<Conn>,
    pub backlog: VecDeque<usize>,
    pub listener_closed: bool,
    pub eintr_pending: u32,
    /// deadline of the `select` currently blocked in the listener, if any
    pub select_deadline: Option<u64>,
    pub accept_blocked: bool,
    /// emergency stop: every blocking operation fails so that all tasks unwind
    pub shutdown: bool,
    pub log: Vec<(u64, u64, Ev)>,
    pub cnt: NetCounters,
    pub listen_result: Option<(u64, u64, String)>,
    pub stop_flag_set_at: Option<(u64, u64)>,
    pub last_accept_return_t: Option<u64>,
}

impl World {
    pub fn ev(&mut self, e: Ev) -> u64 {
        self.seq += 1;
        // a run that never comes to rest (livelock) must not eat the machine: beyond this many
        // events only the sequence number advances (such a run is a violation by itself)
        if self.log.len() < MAX_LOG_EVENTS {
            self.log.push((self.seq, self.now, e));
        }
        self.seq
    }
    pub fn log_hash(&self) -> u64 {
        let mut f = Fnv::new();
        for (s, t, e) in &self.log {
            f.u64(*s);
            f.u64(*t);
            f.str(&format!("{:?}", e));
        }
        f.0
    }
}

pub struct Net {
    pub m: Mutex<World>,
    pub cv: Condvar,
    /// copy of `World::now` readable without a scheduling point (simulated `Instant::now()` is
    /// called by served code while it holds its own std locks)
    pub now_mirror: std::sync::atomic::AtomicU64,
}
pub type NetRef = Arc<Net>;

pub fn new_net() -> NetRef {
    Arc::new(Net {
        m: Mutex::new(World::default()),
        cv: Condvar::new(),
        now_mirror: std::sync::atomic::AtomicU64::new(0),
    })
}

impl Net {
    pub fn lock(&self) -> MutexGuard<'_, World> {
        self.m.lock().unwrap_or_else(|e| e.into_inner())
    }
    fn wait<'a>(&self, g: MutexGuard<'a, World>) -> MutexGuard<'a, World> {
        self.cv.wait(g).unwrap_or_else(|e| e.into_inner())
    }
}

// ---------------------------------------------------------------------------------------------
// server end

pub struct SimStream {
    net: NetRef,
    id: usize,
}

impl SimStream {
    fn new(net: &NetRef, id: usize) -> SimStream {
        SimStream { net: net.clone(), id }
    }
    fn dup(&self) -> SimStream {
        let mut w = self.net.lock();
        w.conns[self.id].srv_handles += 1;
        drop(w);
        SimStream::new(&self.net, self.id)
    }
}

impl Drop for SimStream {
    fn drop(&mut self) {
        if std::thread::panicking() || crate::sched::execution_dead() {
            // the run is already a failure; touching scheduler-owned primitives while unwinding
            // would turn it into an abort
            return;
        }
        let mut w = self.net.lock();
        let id = self.id;
        let c = &mut w.conns[id];
        c.srv_handles = c.srv_handles.saturating_sub(1);
        if c.srv_handles == 0 && c.srv_closed.is_none() {
            c.s2c.wclosed = true;
            c.c2s.rclosed = true;
            let s = w.ev(Ev::SrvClosed { c: id });
            let now = w.now;
            w.conns[id].srv_closed = Some((s, now));
            drop(w);
            self.net.cv.notify_all();
        }
    }
}

fn count_msgs(b: &[u8]) -> usize {
    b.iter().filter(|x| **x == 0).count()
}

impl Read for SimStream {
    fn read(&mut self, out: &mut [u8]) -> io::Result<usize> {
        let id = self.id;
        let mut w = self.net.lock();
        if out.is_empty() {
            return Ok(0);
        }
        loop {
            if w.shutdown {
                return Ok(0);
            }
            if w.conns[id].c2s.reset {
                w.cnt.srv_read_reset += 1;
                w.ev(Ev::SrvRead { c: id, n: 0, what: "reset" });
                return Err(io::Error::from(io::ErrorKind::ConnectionReset));
            }
            if w.conns[id].c2s.rclosed {
                // our own side was shut down
                w.ev(Ev::SrvRead { c: id, n: 0, what: "eof-own-shutdown" });
                return Ok(0);
            }
            let avail = w.conns[id].c2s.buf.len();
            if avail > 0 {
                let mut n = avail.min(out.len());
                let mut what = "data";
                match w.conns[id].srv_read.next() {
                    Some(0) => {
                        w.cnt.srv_read_eintr += 1;
                        w.ev(Ev::SrvRead { c: id, n: 0, what: "eintr" });
                        return Err(io::Error::from(io::ErrorKind::Interrupted));
                    }
                    Some(k) if (k as usize) < n => {
                        n = k as usize;
                        w.cnt.srv_short_reads += 1;
                        what = "short";
                    }
                    _ => {}
                }
                for slot in out.iter_mut().take(n) {
                    *slot = w.conns[id].c2s.buf.pop_front().unwrap();
                }
                let (s, t) = (w.seq + 1, w.now);
                let c = &mut w.conns[id];
                c.srv_read_calls += 1;
                if count_msgs(&out[..n]) >= 2 {
                    c.srv_reads_multi_msg += 1;
                }
                if c.srv_first_io.is_none() {
                    c.srv_first_io = Some((s, t));
                }
                w.ev(Ev::SrvRead { c: id, n, what });
                drop(w);
                self.net.cv.notify_all();
                return Ok(n);
            }
            if w.conns[id].c2s.wclosed {
                if w.conns[id].srv_first_io.is_none() {
                    let (s, t) = (w.seq + 1, w.now);
                    w.conns[id].srv_first_io = Some((s, t));
                }
                w.ev(Ev::SrvRead { c: id, n: 0, what: "eof" });
                return Ok(0);
            }
            if w.conns[id].srv_first_io.is_none() {
                let (s, t) = (w.seq, w.now);
                w.conns[id].srv_first_io = Some((s, t));
            }
            w = self.net.wait(w);
        }
    }
}

impl Write for SimStream {
    fn write(&mut self, b: &[u8]) -> io::Result<usize> {
        let id = self.id;
        if b.is_empty() {
            return Ok(0);
        }
        let mut w = self.net.lock();
        let mut blocked = false;
        loop {
            if w.shutdown {
                return Err(io::Error::from(io::ErrorKind::BrokenPipe));
            }
            let p = &w.conns[id].s2c;
            if p.reset {
                w.cnt.srv_write_epipe += 1;
                w.ev(Ev::SrvWrite { c: id, n: 0, what: "reset" });
                return Err(io::Error::from(io::ErrorKind::ConnectionReset));
            }
            if p.rclosed || p.wclosed {
                w.cnt.srv_write_epipe += 1;
                w.ev(Ev::SrvWrite { c: id, n: 0, what: "epipe" });
                return Err(io::Error::from(io::ErrorKind::BrokenPipe));
            }
            let space = p.cap.saturating_sub(p.buf.len());
            if space > 0 {
                let mut n = b.len().min(space);
                let mut what = "data";
                match w.conns[id].srv_write.next() {
                    Some(0) => {
                        w.cnt.srv_write_eintr += 1;
                        w.ev(Ev::SrvWrite { c: id, n: 0, what: "eintr" });
                        return Err(io::Error::from(io::ErrorKind::Interrupted));
                    }
                    Some(k) if (k as usize) < n => {
                        n = k as usize;
                        w.cnt.srv_short_writes += 1;
                        what = "short";
                    }
                    _ => {}
                }
                let p = &mut w.conns[id].s2c;
                p.buf.extend(&b[..n]);
                p.total += n as u64;
                w.ev(Ev::SrvWrite { c: id, n, what });
                drop(w);
                self.net.cv.notify_all();
                return Ok(n);
            }
            if !blocked {
                blocked = true;
                w.cnt.srv_write_blocked += 1;
            }
            w = self.net.wait(w);
        }
    }
    fn flush(&mut self) -> io::Result<()> {
        Ok(())
    }
}

impl AsRawFd for SimStream {
    fn as_raw_fd(&self) -> RawFd {
        100 + self.id as RawFd
    }
}

impl varlink::Stream for SimStream {
    fn split(&mut self) -> varlink::Result<(Box<dyn Read + Send + Sync>, Box<dyn Write + Send + Sync>)> {
        Ok((Box::new(self.dup()), Box::new(self.dup())))
    }
    fn shutdown(&mut self) -> varlink::Result<()> {
        let id = self.id;
        let mut w = self.net.lock();
        let c = &mut w.conns[id];
        c.s2c.wclosed = true;
        c.c2s.rclosed = true;
        let s = w.ev(Ev::SrvShutdown { c: id });
        let now = w.now;
        if w.conns[id].srv_shutdown.is_none() {
            w.conns[id].srv_shutdown = Some((s, now));
        }
        drop(w);
        self.net.cv.notify_all();
        Ok(())
    }
    fn try_clone(&mut self) -> io::Result<Box<dyn varlink::Stream>> {
        Ok(Box::new(self.dup()))
    }
    fn set_nonblocking(&mut self, _b: bool) -> varlink::Result<()> {
        Ok(())
    }
}

// ---------------------------------------------------------------------------------------------
// listener

pub struct SimListenerImpl {
    pub net: NetRef,
}

pub const LISTENER_FD: RawFd = 7;

impl SimListener for SimListenerImpl {
    fn fake_fd(&self) -> RawFd {
        LISTENER_FD
    }
    fn accept(&self) -> io::Result<Box<dyn varlink::Stream>> {
        let mut w = self.net.lock();
        w.ev(Ev::AcceptEnter);
        let mut blocked = false;
        loop {
            if let Some(id) = w.backlog.pop_front() {
                w.accept_blocked = false;
                let s = w.ev(Ev::AcceptReturn { c: Some(id) });
                let now = w.now;
                w.last_accept_return_t = Some(now);
                let c = &mut w.conns[id];
                c.accepted = Some((s, now));
                c.srv_handles = 1;
                drop(w);
                return Ok(Box::new(SimStream::new(&self.net, id)));
            }
            if w.listener_closed || w.shutdown {
                w.accept_blocked = false;
                w.ev(Ev::AcceptReturn { c: None });
                return Err(io::Error::new(io::ErrorKind::Other, "simulated listener closed"));
            }
            if !blocked {
                blocked = true;
                w.cnt.accept_blocked += 1;
            }
            w.accept_blocked = true;
            w = self.net.wait(w);
        }
    }
    fn set_nonblocking(&self, _b: bool) -> io::Result<()> {
        Ok(())
    }
    fn select(&self, timeout_ms: u64) -> SimSelect {
        let mut w = self.net.lock();
        let deadline = w.now + timeout_ms;
        w.ev(Ev::SelectEnter { timeout: timeout_ms });
        loop {
            let remaining = deadline.saturating_sub(w.now);
            if w.eintr_pending > 0 {
                w.eintr_pending -= 1;
                w.cnt.select_eintr += 1;
                w.select_deadline = None;
                w.ev(Ev::SelectReturn { what: "eintr", remaining });
                return SimSelect::Interrupted { remaining_ms: remaining };
            }
            if !w.backlog.is_empty() || w.listener_closed || w.shutdown {
                w.cnt.select_ready += 1;
                w.select_deadline = None;
                w.ev(Ev::SelectReturn { what: "ready", remaining });
                return SimSelect::Ready { remaining_ms: remaining };
            }
            if w.now >= deadline {
                w.cnt.select_timeouts += 1;
                w.select_deadline = None;
                w.ev(Ev::SelectReturn { what: "timeout", remaining: 0 });
                return SimSelect::TimedOut;
            }
            w.select_deadline = Some(deadline);
            w = self.net.wait(w);
        }
    }
}

// ---------------------------------------------------------------------------------------------
// client side, non-blocking (environment task)

pub struct ConnOpts {
    pub srv_read_plan: Vec<u16>,
    pub srv_write_plan: Vec<u16>,
    pub cli_read_plan: Vec<u16>,
    pub cli_write_plan: Vec<u16>,
    /// server->client window in bytes
    pub s2c_cap: usize,
}
impl Default for ConnOpts {
    fn default() -> Self {
        ConnOpts {
            srv_read_plan: vec![],
            srv_write_plan: vec![],
            cli_read_plan: vec![],
            cli_write_plan: vec![],
            s2c_cap: 1 << 20,
        }
    }
}

impl Net {
    pub fn connect(&self, o: ConnOpts) -> usize {
        self.connect_inner(o, true)
    }
    /// a connected pair without a listener (scenario K1: the environment plays the server end)
    pub fn connect_raw(&self, o: ConnOpts) -> usize {
        self.connect_inner(o, false)
    }
    fn connect_inner(&self, o: ConnOpts, listen: bool) -> usize {
        let mut w = self.lock();
        let id = w.conns.len();
        let now = w.now;
        w.conns.push(Conn {
            c2s: Pipe {
                cap: usize::MAX / 2,
                ..Default::default()
            },
            s2c: Pipe {
                cap: o.s2c_cap.max(1),
                ..Default::default()
            },
            srv_read: IoPlan::new(o.srv_read_plan),
            srv_write: IoPlan::new(o.srv_write_plan),
            cli_read: IoPlan::new(o.cli_read_plan),
            cli_write: IoPlan::new(o.cli_write_plan),
            connected_at: now,
            ..Default::default()
        });
        if listen {
            w.backlog.push_back(id);
        }
        w.ev(Ev::Connect { c: id });
        drop(w);
        self.cv.notify_all();
        id
    }
    /// raw client write: the client's kernel buffer is unbounded here, the segmentation the server
    /// sees is decided by what is in the pipe when its read runs and by its read plan
    pub fn client_send(&self, id: usize, b: &[u8]) -> bool {
        let mut w = self.lock();
        let c = &mut w.conns[id];
        if c.c2s.wclosed || c.c2s.rclosed || c.c2s.reset {
            return false;
        }
        c.c2s.buf.extend(b);
        c.c2s.total += b.len() as u64;
        c.client_sent += b.len() as u64;
        c.client_tx.extend_from_slice(b);
        w.ev(Ev::CliSend { c: id, n: b.len() });
        drop(w);
        self.cv.notify_all();
        true
    }
    /// raw client read of everything available (never blocks); records EOF / reset when seen
    pub fn client_drain(&self, id: usize) -> usize {
        let mut w = self.lock();
        let c = &mut w.conns[id];
        let n = c.s2c.buf.len();
        let data: Vec<u8> = c.s2c.buf.drain(..).collect();
        c.client_rx.extend_from_slice(&data);
        let ended: Option<&'static str> = if c.s2c.reset {
            Some("reset")
        } else if c.s2c.wclosed {
            Some("eof")
        } else {
            None
        };
        if n > 0 {
            w.ev(Ev::CliRecv { c: id, n, what: "data" });
        }
        if let Some(how) = ended {
            if w.conns[id].client_saw_end.is_none() {
                let s = w.ev(Ev::CliRecv { c: id, n: 0, what: how });
                let now = w.now;
                w.conns[id].client_saw_end = Some((s, now, how));
            }
        }
        drop(w);
        if n > 0 {
            self.cv.notify_all();
        }
        n
    }
    pub fn client_half_close(&self, id: usize) {
        let mut w = self.lock();
        if w.conns[id].client_closed.is_none() {
            w.conns[id].c2s.wclosed = true;
            let s = w.ev(Ev::CliClose { c: id, how: "half-close" });
            let now = w.now;
            w.conns[id].client_closed = Some((s, now));
        }
        drop(w);
        self.cv.notify_all();
    }
    pub fn client_close(&self, id: usize) {
        let mut w = self.lock();
        let c = &mut w.conns[id];
        c.c2s.wclosed = true;
        c.s2c.rclosed = true;
        let first = c.client_closed.is_none();
        let s = w.ev(Ev::CliClose { c: id, how: "close" });
        if first {
            let now = w.now;
            w.conns[id].client_closed = Some((s, now));
        }
        drop(w);
        self.cv.notify_all();
    }
    pub fn client_reset(&self, id: usize) {
        let mut w = self.lock();
        let c = &mut w.conns[id];
        c.c2s.reset = true;
        c.s2c.reset = true;
        c.c2s.buf.clear();
        let first = c.client_closed.is_none();
        let s = w.ev(Ev::CliClose { c: id, how: "reset" });
        if first {
            let now = w.now;
            w.conns[id].client_closed = Some((s, now));
        }
        drop(w);
        self.cv.notify_all();
    }
    /// environment as server end: take everything the client wrote so far
    pub fn server_take(&self, id: usize) -> Vec<u8> {
        let mut w = self.lock();
        let data: Vec<u8> = w.conns[id].c2s.buf.drain(..).collect();
        if !data.is_empty() {
            w.ev(Ev::SrvRead { c: id, n: data.len(), what: "env" });
        }
        data
    }
    /// environment as server end: deliver reply bytes
    pub fn server_push(&self, id: usize, b: &[u8]) {
        let mut w = self.lock();
        let p = &mut w.conns[id].s2c;
        if p.wclosed || p.rclosed {
            return;
        }
        p.buf.extend(b);
        p.total += b.len() as u64;
        w.ev(Ev::SrvWrite { c: id, n: b.len(), what: "env" });
        drop(w);
        self.cv.notify_all();
    }
    pub fn server_close(&self, id: usize) {
        let mut w = self.lock();
        w.conns[id].s2c.wclosed = true;
        w.conns[id].c2s.rclosed = true;
        w.ev(Ev::SrvShutdown { c: id });
        drop(w);
        self.cv.notify_all();
    }
    /// stamp an application-level event (client operation invoke / return) into the history
    pub fn stamp(&self, s: String) -> u64 {
        let mut w = self.lock();
        w.ev(Ev::Note(s))
    }
    pub fn signal(&self) {
        let mut w = self.lock();
        w.eintr_pending += 1;
        w.ev(Ev::Signal);
        drop(w);
        self.cv.notify_all();
    }
    pub fn close_listener(&self) {
        let mut w = self.lock();
        w.listener_closed = true;
        w.ev(Ev::ListenerClosed);
        drop(w);
        self.cv.notify_all();
    }
    pub fn emergency_shutdown(&self) {
        let mut w = self.lock();
        w.shutdown = true;
        w.listener_closed = true;
        w.ev(Ev::Note("emergency shutdown".into()));
        drop(w);
        self.cv.notify_all();
    }
    pub fn set_clock(&self, to: u64, busy: bool) {
        let mut w = self.lock();
        if to > w.now {
            w.now = to;
            self.now_mirror.store(to, std::sync::atomic::Ordering::SeqCst);
            w.cnt.clock_jumps += 1;
            if busy {
                w.cnt.clock_jumps_while_busy += 1;
            }
            w.ev(Ev::Clock { to });
            drop(w);
            self.cv.notify_all();
        }
    }
    pub fn note(&self, s: String) {
        let mut w = self.lock();
        w.ev(Ev::Note(s));
    }
}

// ---------------------------------------------------------------------------------------------
// client side, blocking (a real varlink::Connection in its own task)

pub struct ClientEnd {
    net: NetRef,
    pub id: usize,
    /// only the last handle closes the connection
    handles: Arc<std::sync::atomic::AtomicUsize>,
    writer: bool,
}

pub fn client_pair(net: &NetRef, id: usize) -> (ClientEnd, ClientEnd) {
    let h = Arc::new(std::sync::atomic::AtomicUsize::new(2));
    (
        ClientEnd {
            net: net.clone(),
            id,
            handles: h.clone(),
            writer: false,
        },
        ClientEnd {
            net: net.clone(),
            id,
            handles: h,
            writer: true,
        },
    )
}

impl Drop for ClientEnd {
    fn drop(&mut self) {
        if std::thread::panicking() || crate::sched::execution_dead() {
            return;
        }
        let left = self.handles.fetch_sub(1, std::sync::atomic::Ordering::SeqCst) - 1;
        let mut w = self.net.lock();
        let id = self.id;
        if self.writer {
            w.conns[id].c2s.wclosed = true;
        } else {
            w.conns[id].s2c.rclosed = true;
        }
        if left == 0 {
            let s = w.ev(Ev::CliClose { c: id, how: "drop" });
            if w.conns[id].client_closed.is_none() {
                let now = w.now;
                w.conns[id].client_closed = Some((s, now));
            }
        }
        drop(w);
        self.net.cv.notify_all();
    }
}

impl Read for ClientEnd {
    fn read(&mut self, out: &mut [u8]) -> io::Result<usize> {
        let id = self.id;
        if out.is_empty() {
            return Ok(0);
        }
        let mut w = self.net.lock();
        let mut blocked = false;
        loop {
            if w.shutdown {
                return Ok(0);
            }
            if w.conns[id].s2c.reset {
                return Err(io::Error::from(io::ErrorKind::ConnectionReset));
            }
            let avail = w.conns[id].s2c.buf.len();
            if avail > 0 {
                let mut n = avail.min(out.len());
                match w.conns[id].cli_read.next() {
                    Some(0) => {
                        w.cnt.cli_read_eintr += 1;
                        return Err(io::Error::from(io::ErrorKind::Interrupted));
                    }
                    Some(u16::MAX) => {
                        // a receive timeout configured on the socket fires: a transient error, the
                        // data is still there for the next read
                        w.cnt.cli_read_timeout += 1;
                        return Err(io::Error::from(io::ErrorKind::WouldBlock));
                    }
                    Some(k) if (k as usize) < n => {
                        n = k as usize;
                        w.cnt.cli_short_reads += 1;
                    }
                    _ => {}
                }
                for slot in out.iter_mut().take(n) {
                    *slot = w.conns[id].s2c.buf.pop_front().unwrap();
                }
                w.conns[id].client_rx.extend_from_slice(&out[..n]);
                w.ev(Ev::CliRecv { c: id, n, what: "data" });
                drop(w);
                self.net.cv.notify_all();
                return Ok(n);
            }
            if w.conns[id].s2c.wclosed {
                if w.conns[id].client_saw_end.is_none() {
                    let s = w.ev(Ev::CliRecv { c: id, n: 0, what: "eof" });
                    let now = w.now;
                    w.conns[id].client_saw_end = Some((s, now, "eof"));
                }
                return Ok(0);
            }
            if !blocked {
                blocked = true;
                w.cnt.cli_read_blocked += 1;
            }
            w = self.net.wait(w);
        }
    }
}

impl Write for ClientEnd {
    fn write(&mut self, b: &[u8]) -> io::Result<usize> {
        let id = self.id;
        if b.is_empty() {
            return Ok(0);
        }
        let mut w = self.net.lock();
        if w.shutdown {
            return Err(io::Error::from(io::ErrorKind::BrokenPipe));
        }
        let c = &mut w.conns[id];
        if c.c2s.reset {
            return Err(io::Error::from(io::ErrorKind::ConnectionReset));
        }
        if c.c2s.rclosed || c.c2s.wclosed {
            return Err(io::Error::from(io::ErrorKind::BrokenPipe));
        }
        let mut n = b.len();
        match c.cli_write.next() {
            Some(0) => {
                return Err(io::Error::from(io::ErrorKind::Interrupted));
            }
            // a send timeout set on the socket fires (once): nothing is taken by this call
            Some(u16::MAX) => {
                return Err(io::Error::from(io::ErrorKind::WouldBlock));
            }
            Some(k) if (k as usize) < n => n = k as usize,
            _ => {}
        }
        c.c2s.buf.extend(&b[..n]);
        c.c2s.total += n as u64;
        c.client_sent += n as u64;
        c.client_tx.extend_from_slice(&b[..n]);
        w.ev(Ev::CliSend { c: id, n });
        drop(w);
        self.net.cv.notify_all();
        Ok(n)
    }
    fn flush(&mut self) -> io::Result<()> {
        Ok(())
    }
}
