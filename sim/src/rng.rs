//! The only source of randomness in the simulator: one splitmix64/xoshiro256** stream per run,
//! derived from VERIF_SEED, the property id and the run index. Logging never touches it.

#[derive(Clone, Debug)]
pub struct Rng {
    s: [u64; 4],
}

pub fn splitmix64(x: &mut u64) -> u64 {
    *x = x.wrapping_add(0x9E37_79B9_7F4A_7C15);
    let mut z = *x;
    z = (z ^ (z >> 30)).wrapping_mul(0xBF58_476D_1CE4_E5B9);
    z = (z ^ (z >> 27)).wrapping_mul(0x94D0_49BB_1331_11EB);
    z ^ (z >> 31)
}

/// run_seed = mix(VERIF_SEED, property/scenario tag, run index)
pub fn derive_seed(base: u64, tag: &str, index: u64) -> u64 {
    let mut x = base ^ 0x5DEE_CE66_D1CE_4E5B;
    let mut h = splitmix64(&mut x);
    for b in tag.bytes() {
        x ^= (b as u64).wrapping_mul(0x100_0000_01B3);
        h ^= splitmix64(&mut x);
    }
    x ^= index.wrapping_mul(0x9E37_79B9_7F4A_7C15);
    h ^ splitmix64(&mut x)
}

impl Rng {
    pub fn new(seed: u64) -> Rng {
        let mut x = seed;
        Rng {
            s: [
                splitmix64(&mut x),
                splitmix64(&mut x),
                splitmix64(&mut x),
                splitmix64(&mut x),
            ],
        }
    }
    pub fn next(&mut self) -> u64 {
        let r = self.s[1].wrapping_mul(5).rotate_left(7).wrapping_mul(9);
        let t = self.s[1] << 17;
        self.s[2] ^= self.s[0];
        self.s[3] ^= self.s[1];
        self.s[1] ^= self.s[2];
        self.s[0] ^= self.s[3];
        self.s[2] ^= t;
        self.s[3] = self.s[3].rotate_left(45);
        r
    }
    /// uniform in 0..n (n > 0)
    pub fn below(&mut self, n: u64) -> u64 {
        debug_assert!(n > 0);
        // bias is irrelevant here; determinism is what matters
        self.next() % n
    }
    pub fn range(&mut self, lo: u64, hi_incl: u64) -> u64 {
        lo + self.below(hi_incl - lo + 1)
    }
    pub fn usize(&mut self, n: usize) -> usize {
        self.below(n as u64) as usize
    }
    pub fn chance(&mut self, num: u64, den: u64) -> bool {
        self.below(den) < num
    }
    pub fn pick<'a, T>(&mut self, v: &'a [T]) -> &'a T {
        &v[self.usize(v.len())]
    }
    pub fn fork(&mut self) -> Rng {
        Rng::new(self.next())
    }
}

/// FNV-1a, used for event-log hashes and distinctness signatures (stable across processes,
/// unlike std's RandomState).
#[derive(Clone, Copy)]
pub struct Fnv(pub u64);
impl Default for Fnv {
    fn default() -> Self {
        Fnv(0xcbf2_9ce4_8422_2325)
    }
}
impl Fnv {
    pub fn new() -> Fnv {
        Fnv::default()
    }
    pub fn bytes(&mut self, b: &[u8]) {
        for x in b {
            self.0 ^= *x as u64;
            self.0 = self.0.wrapping_mul(0x100_0000_01b3);
        }
    }
    pub fn u64(&mut self, v: u64) {
        self.bytes(&v.to_le_bytes());
    }
    pub fn str(&mut self, s: &str) {
        self.bytes(s.as_bytes());
        self.bytes(&[0xff]);
    }
}
pub fn fnv_str(s: &str) -> u64 {
    let mut f = Fnv::new();
    f.str(s);
    f.0
}
